#!/usr/bin/env python3
"""Validate MANIFEST.json and evidence/*.json against the schemas (run with python3-vt)."""
import json, glob, sys, jsonschema
ok = True
def v(path, schema):
    global ok
    try:
        jsonschema.validate(json.load(open(path)), json.load(open(schema)))
    except Exception as e:
        ok = False
        print("INVALID", path, str(e)[:400])
v('/verif/MANIFEST.json', '/root/.vp/MANIFEST.schema.json')
for f in sorted(glob.glob('/verif/evidence/*.json')):
    v(f, '/root/.vp/EVIDENCE.schema.json')
m = json.load(open('/verif/MANIFEST.json'))
claimed = {c['property_id'] for c in m['checks']}
na = {c['property_id'] for c in m.get('not_applicable', [])}
props = [json.loads(l)['id'] for l in open('/verif/properties.jsonl')]
for p in props:
    if p not in claimed and p not in na:
        print("UNCLAIMED (not in checks, not in not_applicable):", p)
print("ok" if ok else "FAILED")
sys.exit(0 if ok else 1)
