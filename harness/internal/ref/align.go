package ref

import (
	"fmt"
	"math"
)

// Gap is the gap symbol of a substitution matrix.
const Gap = 255

// Matrix maps (x,y) to the score of aligning x with y; (x,Gap) scores x against a gap
// (deletion of a character of a), (Gap,y) scores y against a gap (insertion of a character
// of b), (Gap,Gap) is the gap-open score charged once per run of equal gap steps.
type Matrix map[[2]byte]float64

func (m Matrix) get(x, y byte) float64 {
	v, ok := m[[2]byte{x, y}]
	if !ok {
		panic(fmt.Sprintf("reference: pair (%d,%d) not in matrix", x, y))
	}
	return v
}

// Step values as documented by the align package.
const (
	Match     = 1
	Deletion  = 2
	Insertion = 3
)

// Rescore walks steps from (ai,bi) and returns the score under the documented scoring
// together with the number of characters of a and b consumed. An error is returned for an
// unknown step value or a step that runs outside a or b.
func Rescore(steps []byte, a, b []byte, ai, bi int, m Matrix) (score float64, na, nb int, err error) {
	if ai < 0 || bi < 0 || ai > len(a) || bi > len(b) {
		if len(steps) == 0 {
			return 0, 0, 0, nil
		}
		return 0, 0, 0, fmt.Errorf("start offsets (%d,%d) outside the sequences (%d,%d)", ai, bi, len(a), len(b))
	}
	i, j := ai, bi
	var prev byte
	for k, s := range steps {
		switch s {
		case Match:
			if i >= len(a) || j >= len(b) {
				return 0, 0, 0, fmt.Errorf("step %d (match) runs past the end of a sequence", k)
			}
			score += m.get(a[i], b[j])
			i++
			j++
		case Deletion:
			if i >= len(a) {
				return 0, 0, 0, fmt.Errorf("step %d (deletion) runs past the end of a", k)
			}
			score += m.get(a[i], Gap)
			if prev != Deletion {
				score += m.get(Gap, Gap)
			}
			i++
		case Insertion:
			if j >= len(b) {
				return 0, 0, 0, fmt.Errorf("step %d (insertion) runs past the end of b", k)
			}
			score += m.get(Gap, b[j])
			if prev != Insertion {
				score += m.get(Gap, Gap)
			}
			j++
		default:
			return 0, 0, 0, fmt.Errorf("step %d has unknown value %d", k, s)
		}
		prev = s
	}
	return score, i - ai, j - bi, nil
}

var negInf = math.Inf(-1)

func max3(a, b, c float64) float64 { return math.Max(a, math.Max(b, c)) }

// Optimum returns the optimal global score (local=false), or the optimal score over all
// pairs of substrings incl. the empty alignment (local=true), with affine gaps in the
// documented sense. Three-state dynamic programme (match / deletion / insertion as the last step).
func Optimum(a, b []byte, m Matrix, local bool) float64 {
	open := m.get(Gap, Gap)
	bn := len(b) + 1
	M := make([]float64, (len(a)+1)*bn)
	D := make([]float64, len(M))
	I := make([]float64, len(M))
	best := negInf
	for i := 0; i <= len(a); i++ {
		for j := 0; j <= len(b); j++ {
			c := i*bn + j
			if i == 0 && j == 0 {
				M[c], D[c], I[c] = 0, negInf, negInf
				if local {
					best = 0
				}
				continue
			}
			start := negInf // value of starting a fresh alignment at the predecessor cell
			if local {
				start = 0
			}
			M[c], D[c], I[c] = negInf, negInf, negInf
			if i > 0 && j > 0 {
				p := c - bn - 1
				M[c] = math.Max(start, max3(M[p], D[p], I[p])) + m.get(a[i-1], b[j-1])
			}
			if i > 0 {
				p := c - bn
				g := m.get(a[i-1], Gap)
				D[c] = math.Max(math.Max(start, math.Max(M[p], I[p]))+open+g, D[p]+g)
			}
			if j > 0 {
				p := c - 1
				g := m.get(Gap, b[j-1])
				I[c] = math.Max(math.Max(start, math.Max(M[p], D[p]))+open+g, I[p]+g)
			}
			if local {
				best = math.Max(best, max3(M[c], D[c], I[c]))
			}
		}
	}
	if local {
		return best
	}
	c := len(M) - 1
	return max3(M[c], D[c], I[c])
}

// BruteOptimum enumerates every alignment (every sequence of match/deletion/insertion steps
// consuming all of a and b) and returns the best score; with local=true it does so for
// every pair of substrings and includes the empty alignment. Exponential: tiny inputs only.
func BruteOptimum(a, b []byte, m Matrix, local bool) float64 {
	if !local {
		return bruteGlobal(a, b, m)
	}
	best := 0.0
	for i0 := 0; i0 <= len(a); i0++ {
		for i1 := i0; i1 <= len(a); i1++ {
			for j0 := 0; j0 <= len(b); j0++ {
				for j1 := j0; j1 <= len(b); j1++ {
					if i0 == i1 && j0 == j1 {
						continue
					}
					best = math.Max(best, bruteGlobal(a[i0:i1], b[j0:j1], m))
				}
			}
		}
	}
	return best
}

func bruteGlobal(a, b []byte, m Matrix) float64 {
	open := m.get(Gap, Gap)
	var rec func(i, j int, prev byte) float64
	rec = func(i, j int, prev byte) float64 {
		if i == len(a) && j == len(b) {
			return 0
		}
		best := negInf
		if i < len(a) && j < len(b) {
			best = math.Max(best, m.get(a[i], b[j])+rec(i+1, j+1, Match))
		}
		if i < len(a) {
			s := m.get(a[i], Gap)
			if prev != Deletion {
				s += open
			}
			best = math.Max(best, s+rec(i+1, j, Deletion))
		}
		if j < len(b) {
			s := m.get(Gap, b[j])
			if prev != Insertion {
				s += open
			}
			best = math.Max(best, s+rec(i, j+1, Insertion))
		}
		return best
	}
	return rec(0, 0, 0)
}

// SingleTable is a frozen transcription of the single-table recurrence that
// align.Global/align.Local documented at the pinned commit (one (score, step) per cell; the
// gap-open score is charged when the predecessor cell's recorded step is not the same gap
// kind; ties prefer match, then deletion). It is used ONLY to recognise the listed known
// finding of C10 (a sub-optimal score that this recurrence explains) and never to pass a case.
func SingleTable(a, b []byte, m Matrix, local bool) float64 {
	type cell struct {
		score float64
		step  byte
	}
	an, bn := len(a)+1, len(b)+1
	t := make([]cell, an*bn)
	open := m.get(Gap, Gap)
	best := 0.0
	for i := range t {
		ai, bi := i/bn, i%bn
		if ai == 0 && bi == 0 {
			continue
		}
		switch {
		case ai == 0:
			t[i] = cell{t[i-1].score + m.get(Gap, b[bi-1]), Insertion}
			if bi == 1 {
				t[i].score += open
			}
		case bi == 0:
			t[i] = cell{t[i-bn].score + m.get(a[ai-1], Gap), Deletion}
			if ai == 1 {
				t[i].score += open
			}
		default:
			mch := t[i-bn-1].score + m.get(a[ai-1], b[bi-1])
			del := t[i-bn].score + m.get(a[ai-1], Gap)
			if t[i-bn].step != Deletion {
				del += open
			}
			ins := t[i-1].score + m.get(Gap, b[bi-1])
			if t[i-1].step != Insertion {
				ins += open
			}
			switch {
			case mch >= del && mch >= ins:
				t[i] = cell{mch, Match}
			case del >= ins:
				t[i] = cell{del, Deletion}
			default:
				t[i] = cell{ins, Insertion}
			}
		}
		if local {
			if t[i].score < 0 {
				t[i] = cell{}
			}
			if t[i].score > best {
				best = t[i].score
			}
		}
	}
	if local {
		return best
	}
	return t[len(t)-1].score
}

// EditDistance is the Levenshtein distance of two byte strings (two-row routine).
func EditDistance(a, b []byte) int {
	prev := make([]int, len(b)+1)
	cur := make([]int, len(b)+1)
	for j := range prev {
		prev[j] = j
	}
	for i := 1; i <= len(a); i++ {
		cur[0] = i
		for j := 1; j <= len(b); j++ {
			sub := prev[j-1]
			if a[i-1] != b[j-1] {
				sub++
			}
			cur[j] = min(sub, prev[j]+1, cur[j-1]+1)
		}
		prev, cur = cur, prev
	}
	return prev[len(b)]
}
