// Package ref holds reference models written from the property statements, independent of
// the implementation under test.
package ref

import "bytes"

// complement as stated: A<->T, C<->G, N<->N, case preserved.
var complement = map[byte]byte{
	'a': 't', 'A': 'T', 'c': 'g', 'C': 'G', 'g': 'c', 'G': 'C', 't': 'a', 'T': 'A', 'n': 'n', 'N': 'N',
}

// IsRCLetter tells whether b is in aAcCgGtTnN.
func IsRCLetter(b byte) bool { _, ok := complement[b]; return ok }

// RevComp returns the reversed, base-wise complemented copy of s (s over aAcCgGtTnN).
func RevComp(s []byte) []byte {
	out := make([]byte, len(s))
	for i := range s {
		out[len(s)-1-i] = complement[s[i]]
	}
	return out
}

// Canonical returns the lexicographically smaller of s and its reverse complement.
func Canonical(s []byte) []byte {
	rc := RevComp(s)
	if bytes.Compare(rc, s) < 0 {
		return rc
	}
	return s
}

// BaseCode returns 0..3 for aA cC gG tT and -1 otherwise.
func BaseCode(b byte) int {
	switch b {
	case 'a', 'A':
		return 0
	case 'c', 'C':
		return 1
	case 'g', 'G':
		return 2
	case 't', 'T':
		return 3
	}
	return -1
}

// Pack2Bit packs a DNA string: first base in the most significant bits, zero padding.
func Pack2Bit(s []byte) []byte {
	out := make([]byte, (len(s)+3)/4)
	for i, b := range s {
		out[i/4] |= byte(BaseCode(b)) << uint(6-2*(i%4))
	}
	return out
}

// Unpack2Bit expands packed bytes into ACGT letters.
func Unpack2Bit(p []byte) []byte {
	out := make([]byte, 0, 4*len(p))
	for _, b := range p {
		for sh := 6; sh >= 0; sh -= 2 {
			out = append(out, "ACGT"[(b>>uint(sh))&3])
		}
	}
	return out
}

// NCBI translation table 1, indexed 16*n(b0)+4*n(b1)+n(b2) with T=0, C=1, A=2, G=3.
const table1 = "FFLLSSSSYY**CC*WLLLLPPPPHHQQRRRRIIIMTTTTNNKKSSRRVVVVAAAADDEEGGGG"

func tcag(b byte) int {
	switch b {
	case 't', 'T':
		return 0
	case 'c', 'C':
		return 1
	case 'a', 'A':
		return 2
	case 'g', 'G':
		return 3
	}
	return -1
}

// Translate translates s (len%3==0, over aAcCgGtT) with the standard genetic code.
// ok is false when the input is outside that domain.
func Translate(s []byte) (out []byte, ok bool) {
	if len(s)%3 != 0 {
		return nil, false
	}
	for i := 0; i < len(s); i += 3 {
		a, b, c := tcag(s[i]), tcag(s[i+1]), tcag(s[i+2])
		if a < 0 || b < 0 || c < 0 {
			return nil, false
		}
		out = append(out, table1[16*a+4*b+c])
	}
	return out, true
}
