// Package rec is the evidence recorder and failure reporter shared by all property checks.
//
// Every call of a property's check function is reported through Eval with a key that
// identifies the case (distinctness), whether the case is non-trivial by the property's
// stated rule, and class labels. A process dumps one JSON file per (property, stage,
// shard); the driver unions the hash sets of all processes of a run, so the numbers in
// the evidence file are measured, not constants.
package rec

import (
	"encoding/binary"
	"encoding/json"
	"fmt"
	"hash/fnv"
	"os"
	"path/filepath"
	"sort"
	"sync"
	"time"
)

// Recorder accumulates what one process explored for one property.
type Recorder struct {
	mu        sync.Mutex
	Property  string
	Stage     string
	Shard     int
	evals     int64
	nontriv   map[uint64]struct{}
	classes   map[string]int64
	counters  map[string]int64
	samples   map[string][]sample // per sample bucket, lowest hashes kept
	failures  []Failure
	known     map[string]int64
	start     time.Time
	inflight  string
	inflightT time.Time
}

type sample struct {
	h uint64
	v any
}

// Failure is one failing case.
type Failure struct {
	Stage  string `json:"stage"`
	Msg    string `json:"msg"`
	Replay string `json:"replay"`
}

const samplesPerBucket = 3

// New returns a recorder.
func New(property, stage string, shard int) *Recorder {
	return &Recorder{
		Property: property, Stage: stage, Shard: shard,
		nontriv: map[uint64]struct{}{}, classes: map[string]int64{},
		counters: map[string]int64{}, samples: map[string][]sample{},
		known: map[string]int64{}, start: time.Now(),
	}
}

// Hash returns the 64-bit FNV-1a hash of key.
func Hash(key []byte) uint64 {
	h := fnv.New64a()
	h.Write(key)
	return h.Sum64()
}

// Eval records one evaluation of the check function.
// key identifies the case; nontrivial is the property's non-triviality rule applied to
// the case; classes are labels for the class histogram.
func (r *Recorder) Eval(key []byte, nontrivial bool, classes ...string) uint64 {
	h := Hash(key)
	r.mu.Lock()
	r.evals++
	if nontrivial {
		r.nontriv[h] = struct{}{}
	}
	for _, c := range classes {
		r.classes[c]++
	}
	r.mu.Unlock()
	return h
}

// Count adds n to a named counter (extra coverage keys).
func (r *Recorder) Count(name string, n int64) {
	r.mu.Lock()
	r.counters[name] += n
	r.mu.Unlock()
}

// Known records a failing case that matched a listed open finding.
func (r *Recorder) Known(id string) {
	r.mu.Lock()
	r.known[id]++
	r.mu.Unlock()
}

// Sample offers a case for the sample list; the lowest-hash cases of each bucket are
// kept, so the selection is deterministic for a given run.
func (r *Recorder) Sample(bucket string, h uint64, v any) {
	r.mu.Lock()
	defer r.mu.Unlock()
	s := r.samples[bucket]
	if len(s) >= samplesPerBucket && h >= s[len(s)-1].h {
		return
	}
	for _, x := range s {
		if x.h == h {
			return
		}
	}
	s = append(s, sample{h, v})
	sort.Slice(s, func(i, j int) bool { return s[i].h < s[j].h })
	if len(s) > samplesPerBucket {
		s = s[:samplesPerBucket]
	}
	r.samples[bucket] = s
}

// WantSample tells whether Sample(bucket, h, ...) would keep the case (so that callers can
// skip building an expensive readable form).
func (r *Recorder) WantSample(bucket string, h uint64) bool {
	r.mu.Lock()
	defer r.mu.Unlock()
	s := r.samples[bucket]
	return len(s) < samplesPerBucket || h < s[len(s)-1].h
}

// Fail records a failing case.
func (r *Recorder) Fail(f Failure) {
	r.mu.Lock()
	r.failures = append(r.failures, f)
	r.mu.Unlock()
}

// Failures returns the number of recorded failures.
func (r *Recorder) Failures() int {
	r.mu.Lock()
	defer r.mu.Unlock()
	return len(r.failures)
}

// SetInflight remembers a description of the case being run (for the watchdog).
func (r *Recorder) SetInflight(desc string) {
	r.mu.Lock()
	r.inflight = desc
	r.inflightT = time.Now()
	r.mu.Unlock()
}

// Inflight returns the in-flight description and how long it has been running.
func (r *Recorder) Inflight() (string, time.Duration) {
	r.mu.Lock()
	defer r.mu.Unlock()
	if r.inflight == "" {
		return "", 0
	}
	return r.inflight, time.Since(r.inflightT)
}

type dump struct {
	Property    string           `json:"property"`
	Stage       string           `json:"stage"`
	Shard       int              `json:"shard"`
	Evaluations int64            `json:"evaluations"`
	Nontrivial  int              `json:"nontrivial"`
	HashFile    string           `json:"hash_file"`
	Classes     map[string]int64 `json:"classes"`
	Counters    map[string]int64 `json:"counters"`
	Known       map[string]int64 `json:"known"`
	Samples     []any            `json:"samples"`
	Failures    []Failure        `json:"failures"`
	WallS       float64          `json:"wall_s"`
}

// Dump writes <dir>/<property>.<stage>.<shard>.json and the matching .hashes file.
func (r *Recorder) Dump(dir string) error {
	r.mu.Lock()
	defer r.mu.Unlock()
	if err := os.MkdirAll(dir, 0o755); err != nil {
		return err
	}
	base := fmt.Sprintf("%s.%s.%d", r.Property, r.Stage, r.Shard)
	hf := filepath.Join(dir, base+".hashes")
	buf := make([]byte, 0, 8*len(r.nontriv))
	for h := range r.nontriv {
		buf = binary.LittleEndian.AppendUint64(buf, h)
	}
	if err := os.WriteFile(hf, buf, 0o644); err != nil {
		return err
	}
	var buckets []string
	for b := range r.samples {
		buckets = append(buckets, b)
	}
	sort.Strings(buckets)
	var samples []any
	for _, b := range buckets {
		for _, s := range r.samples[b] {
			samples = append(samples, map[string]any{"class": b, "case": s.v})
		}
	}
	d := dump{
		Property: r.Property, Stage: r.Stage, Shard: r.Shard,
		Evaluations: r.evals, Nontrivial: len(r.nontriv), HashFile: hf,
		Classes: r.classes, Counters: r.counters, Known: r.known,
		Samples: samples, Failures: r.failures,
		WallS: time.Since(r.start).Seconds(),
	}
	js, err := json.MarshalIndent(d, "", " ")
	if err != nil {
		return err
	}
	return os.WriteFile(filepath.Join(dir, base+".json"), js, 0o644)
}

// Evaluations returns the number of cases evaluated so far.
func (r *Recorder) Evaluations() int64 {
	r.mu.Lock()
	defer r.mu.Unlock()
	return r.evals
}
