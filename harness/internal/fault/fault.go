// Package fault provides io.Readers that split a byte stream in a prescribed way or fail at a
// prescribed offset, and io.Writers that start failing after a number of bytes.
package fault

import (
	"context"
	"errors"
	"fmt"
	"io"
	"io/fs"
	"os"
)

// ErrInjected is the non-EOF error delivered by failing readers and writers.
var ErrInjected = errors.New("injected I/O fault")

// Other non-EOF errors a failing stream may deliver: one that is not io.EOF but has io.EOF in
// its Unwrap chain (a transport adding context to every error), io.ErrUnexpectedEOF (what
// truncated compressed streams report), and one that declares itself temporary.
var (
	ErrWrapsEOF = fmt.Errorf("connection reset while reading: %w", io.EOF)
	// ErrTemporary is of the class net timeouts and EAGAIN belong to: it has Temporary() and
	// Timeout() methods that return true. It is still a failure of the stream.
	ErrTemporary error = temporaryError{}
	// ErrClosedFile is what (*os.File).Read returns once the file was closed underneath the
	// reader; io.ErrClosedPipe and context.Canceled are what pipes and cancelled transfers
	// report. All of them are failures of the stream: the data stops at an arbitrary byte.
	ErrClosedFile error = &fs.PathError{Op: "read", Path: "reads.txt", Err: os.ErrClosed}
	ErrKinds            = []error{ErrInjected, ErrWrapsEOF, io.ErrUnexpectedEOF, ErrTemporary, io.ErrClosedPipe, ErrClosedFile, context.Canceled}
)

type temporaryError struct{}

func (temporaryError) Error() string   { return "i/o timeout (injected, temporary)" }
func (temporaryError) Temporary() bool { return true }
func (temporaryError) Timeout() bool   { return true }

// Chunked delivers data in the listed chunk sizes (applied cyclically, each at least 1 byte
// and at most len(p)); with EOFWithData the final bytes arrive together with io.EOF.
type Chunked struct {
	Data        []byte
	Sizes       []int
	EOFWithData bool
	// Stall > 0: once StallAt bytes were delivered, the next Stall reads return (0, nil) - a
	// source that makes no progress for a while - and then the data carries on.
	StallAt, Stall int
	pos, i         int
	Reads          int
}

func (c *Chunked) Read(p []byte) (int, error) {
	if c.pos >= len(c.Data) {
		return 0, io.EOF
	}
	if len(p) == 0 {
		return 0, nil
	}
	if c.Stall > 0 && c.pos >= c.StallAt {
		c.Stall--
		c.Reads++
		return 0, nil
	}
	n := 1
	if len(c.Sizes) > 0 {
		n = c.Sizes[c.i%len(c.Sizes)]
		c.i++
	}
	n = max(1, min(n, len(p), len(c.Data)-c.pos))
	if c.Stall > 0 && c.pos < c.StallAt {
		n = min(n, c.StallAt-c.pos)
	}
	copy(p, c.Data[c.pos:c.pos+n])
	c.pos += n
	c.Reads++
	if c.EOFWithData && c.pos == len(c.Data) {
		return n, io.EOF
	}
	return n, nil
}

// FailAfter delivers the first K bytes of Data and then fails with ErrInjected.
//
// Forever: every later Read fails again; otherwise the error is returned once and later
// reads return io.EOF (or, with Resume, the rest of the data). WithData: the error is returned together with the last delivered
// bytes (n>0, err) instead of by a separate (0, err) call. Chunk limits the size of each
// read (0 = as much as fits).
type FailAfter struct {
	Data     []byte
	K        int
	Forever  bool
	WithData bool
	Chunk    int
	// Resume: after the error has been returned once, the rest of Data is delivered (a
	// connection that timed out once and then carries on), followed by io.EOF.
	Resume bool
	Err    error // the error to deliver (default ErrInjected)
	pos    int
	failed bool
	Calls  int
}

func (f *FailAfter) err() error {
	if f.Err != nil {
		return f.Err
	}
	return ErrInjected
}

func (f *FailAfter) Read(p []byte) (int, error) {
	f.Calls++
	k := min(f.K, len(f.Data))
	if f.Resume && f.failed {
		if f.pos >= len(f.Data) {
			return 0, io.EOF
		}
		if len(p) == 0 {
			return 0, nil
		}
		n := min(len(p), len(f.Data)-f.pos)
		if f.Chunk > 0 {
			n = min(n, f.Chunk)
		}
		copy(p, f.Data[f.pos:f.pos+n])
		f.pos += n
		return n, nil
	}
	if f.pos >= k {
		if f.failed && !f.Forever {
			return 0, io.EOF
		}
		f.failed = true
		return 0, f.err()
	}
	if len(p) == 0 {
		return 0, nil
	}
	n := min(len(p), k-f.pos)
	if f.Chunk > 0 {
		n = min(n, f.Chunk)
	}
	copy(p, f.Data[f.pos:f.pos+n])
	f.pos += n
	if f.WithData && f.pos == k {
		f.failed = true
		return n, f.err()
	}
	return n, nil
}

// LimitedWriter accepts Limit bytes in total and then fails. With Short the failing call
// reports the bytes it did accept; with Full it reports len(p) together with the error (as
// io.Writer permits: a writer that counts the bytes before it commits them); otherwise it
// reports 0.
type LimitedWriter struct {
	Limit   int
	Short   bool
	Full    bool
	Written int
	Failed  bool
}

func (w *LimitedWriter) Write(p []byte) (int, error) {
	if w.Failed {
		return 0, ErrInjected
	}
	room := w.Limit - w.Written
	if len(p) <= room {
		w.Written += len(p)
		return len(p), nil
	}
	w.Failed = true
	if w.Full {
		w.Written += room
		return len(p), ErrInjected
	}
	if w.Short {
		w.Written += room
		return room, ErrInjected
	}
	return 0, ErrInjected
}
