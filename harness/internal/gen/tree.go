package gen

import (
	"encoding/json"
	"math"
	"strconv"

	"pgregory.net/rapid"
)

// F is a float64 that survives JSON exactly (NaN and infinities included).
type F float64

// MarshalJSON implements json.Marshaler.
func (f F) MarshalJSON() ([]byte, error) {
	return json.Marshal(strconv.FormatFloat(float64(f), 'g', -1, 64))
}

// UnmarshalJSON implements json.Unmarshaler.
func (f *F) UnmarshalJSON(data []byte) error {
	var s string
	if err := json.Unmarshal(data, &s); err != nil {
		var x float64
		if err2 := json.Unmarshal(data, &x); err2 != nil {
			return err
		}
		*f = F(x)
		return nil
	}
	x, err := strconv.ParseFloat(s, 64)
	if err != nil {
		return err
	}
	*f = F(x)
	return nil
}

// SameFloat: equal, or both NaN (so +0 and -0 are the same).
func SameFloat(a, b float64) bool {
	return a == b || (math.IsNaN(a) && math.IsNaN(b))
}

// TreeSpec is a JSON-friendly ordered tree. Node 0 is the root.
//
// Shape "" (explicit): node i>0 hangs under node Parents[i-1] (< i), children in index order.
// Shape "chain": N nodes, node i has the single child i+1.
// Shape "broom": a chain of N nodes whose last node has Fan leaf children.
// Shape "caterpillar": a spine of N nodes, every spine node also has a leaf child, placed
// before the next spine node on even levels and after it on odd levels.
//
// Names and Dists are applied cyclically over the node indices (empty: no names / zero).
type TreeSpec struct {
	Shape   string `json:"shape,omitempty"`
	Parents []int  `json:"parents,omitempty"`
	N       int    `json:"n,omitempty"`
	Fan     int    `json:"fan,omitempty"`
	Names   []B    `json:"names,omitempty"`
	Dists   []F    `json:"dists,omitempty"`
	// EmptyLeaves: 0 = childless nodes have a nil Children slice, 1 = an empty non-nil slice,
	// 2 = alternating, 3 = an empty slice with spare capacity.
	EmptyLeaves int `json:"empty_leaves,omitempty"`
	// SharedChildren: all Children slices are windows of ONE backing array (as an arena-style
	// builder produces), so each slice's spare capacity holds the children of other nodes.
	SharedChildren bool `json:"shared_children,omitempty"`
}

// ParentArray expands the spec into a parent array (parent of node i, -1 for the root) in an
// order where children of a node appear in increasing index order.
func (s TreeSpec) ParentArray() []int {
	switch s.Shape {
	case "chain":
		n := max(s.N, 1)
		p := make([]int, n)
		for i := range p {
			p[i] = i - 1
		}
		return p
	case "broom":
		n := max(s.N, 1)
		p := make([]int, n, n+max(s.Fan, 0))
		for i := range p {
			p[i] = i - 1
		}
		for i := 0; i < s.Fan; i++ {
			p = append(p, n-1)
		}
		return p
	case "caterpillar":
		n := max(s.N, 1)
		// spine node k has index 2k (k>0: 2k or 2k-1 depending on side), built explicitly.
		p := []int{-1}
		spine := 0
		for k := 0; k < n; k++ {
			last := k == n-1
			if k%2 == 0 {
				p = append(p, spine) // leaf first
				if !last {
					p = append(p, spine)
					spine = len(p) - 1
				}
			} else {
				if !last {
					p = append(p, spine)
					next := len(p) - 1
					p = append(p, spine) // leaf after
					spine = next
				} else {
					p = append(p, spine)
				}
			}
		}
		return p
	}
	p := make([]int, len(s.Parents)+1)
	p[0] = -1
	for i, x := range s.Parents {
		if x < 0 {
			x = 0
		}
		if x > i {
			x = i
		}
		p[i+1] = x
	}
	return p
}

// NameOf returns the name of node i.
func (s TreeSpec) NameOf(i int) []byte {
	if len(s.Names) == 0 {
		return nil
	}
	return s.Names[i%len(s.Names)]
}

// DistOf returns the distance of node i.
func (s TreeSpec) DistOf(i int) float64 {
	if len(s.Dists) == 0 {
		return 0
	}
	return float64(s.Dists[i%len(s.Dists)])
}

// Floats draws float64 values from a mixture: small "round decimal" values, bit patterns
// (normal, subnormal, huge, negative), infinities and NaN.
func Floats() *rapid.Generator[float64] {
	return rapid.OneOf(
		rapid.Custom(func(t *rapid.T) float64 {
			return float64(rapid.IntRange(-100000, 100000).Draw(t, "num")) / math.Pow10(rapid.IntRange(0, 6).Draw(t, "exp"))
		}),
		rapid.Custom(func(t *rapid.T) float64 {
			return math.Float64frombits(rapid.Uint64().Draw(t, "bits"))
		}),
		rapid.Float64(),
		// full-precision values in everyday ranges (16-17 significant digits in plain decimal
		// notation, as branch lengths and scores computed by other programs have)
		rapid.Custom(func(t *rapid.T) float64 {
			u := float64(rapid.Uint64().Draw(t, "u")>>11) / (1 << 53)
			return u * rapid.SampledFrom([]float64{1, 1, 10, 1000, 1e-3, -1}).Draw(t, "scale")
		}),
		rapid.SampledFrom([]float64{math.NaN(), math.Inf(1), math.Inf(-1), math.SmallestNonzeroFloat64, -math.SmallestNonzeroFloat64,
			math.MaxFloat64, -math.MaxFloat64, 1e21, 1e-7, 123456789.123456789, 0.1, 1, -1, 1e100, 5e-324, 2.2250738585072014e-308,
			0.97552492417777546, 0.9007199254740993, 1.0 / 3, 2.0 / 3, 0.1 + 0.2, 9007199254740993, 0.000123456789012345678}),
	)
}

// FiniteFloats draws finite float64 values.
func FiniteFloats() *rapid.Generator[float64] {
	return Floats().Filter(func(x float64) bool { return !math.IsNaN(x) && !math.IsInf(x, 0) })
}

// DrawShape draws the Parents slice of an explicit tree with n nodes.
func DrawShape(t *rapid.T, n int) []int {
	{
		if n <= 1 {
			return nil
		}
		mode := rapid.IntRange(0, 4).Draw(t, "mode")
		p := make([]int, n-1)
		for i := range p {
			// node i+1 may hang under any of nodes 0..i
			switch mode {
			case 0: // uniform random recursive tree (bushy, shallow)
				p[i] = rapid.IntRange(0, i).Draw(t, "p")
			case 1: // mostly chains
				if rapid.IntRange(0, 5).Draw(t, "c") == 0 {
					p[i] = rapid.IntRange(0, i).Draw(t, "p")
				} else {
					p[i] = i
				}
			case 2: // wide: few parents
				p[i] = rapid.IntRange(0, min(i, 2)).Draw(t, "p")
			case 3: // near the end (deep and unbalanced)
				p[i] = i - rapid.IntRange(0, min(i, 3)).Draw(t, "back")
			default:
				p[i] = rapid.OneOf(rapid.IntRange(0, i), rapid.Just(i), rapid.Just(0)).Draw(t, "p")
			}
		}
		return p
	}
}

// AllShapes enumerates every ordered tree with exactly n nodes as a Parents slice (nodes in
// pre-order), calling emit for each; emit returns false to stop.
func AllShapes(n int, emit func([]int) bool) bool {
	if n <= 1 {
		return emit(nil)
	}
	parents := make([]int, 0, n-1)
	// path holds the rightmost path (node indices from the root to the last added node).
	var rec func(path []int) bool
	rec = func(path []int) bool {
		if len(parents) == n-1 {
			return emit(append([]int(nil), parents...))
		}
		node := len(parents) + 1
		for d := len(path); d >= 1; d-- {
			parents = append(parents, path[d-1])
			np := append(append([]int(nil), path[:d]...), node)
			ok := rec(np)
			parents = parents[:len(parents)-1]
			if !ok {
				return false
			}
		}
		return true
	}
	return rec([]int{0})
}
