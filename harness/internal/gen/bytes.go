// Package gen holds the rapid generators and the JSON-friendly value types shared by the
// property checks.
package gen

import (
	"bytes"
	"encoding/json"
	"fmt"
	"strconv"
	"strings"

	"pgregory.net/rapid"
)

// B is a byte string that marshals to a readable JSON string: the Go-escaped form of the
// bytes (as produced by strconv.Quote without the surrounding quotes). The encoding is
// exact for arbitrary bytes.
type B []byte

// MarshalJSON implements json.Marshaler.
func (b B) MarshalJSON() ([]byte, error) {
	q := strconv.QuoteToASCII(string(b))
	return json.Marshal(q[1 : len(q)-1])
}

// UnmarshalJSON implements json.Unmarshaler.
func (b *B) UnmarshalJSON(data []byte) error {
	var s string
	if err := json.Unmarshal(data, &s); err != nil {
		return err
	}
	// s holds Go escapes; a literal double quote is escaped as \" already.
	u, err := strconv.Unquote(`"` + s + `"`)
	if err != nil {
		return fmt.Errorf("bad escaped byte string %q: %v", s, err)
	}
	*b = B(u)
	return nil
}

func (b B) String() string { return string(b) }

// Blob is a possibly large byte string in compact form: Head + Unit*Reps + Tail.
// Small strings only use Head. Large strings stay cheap to draw, shrink and store.
type Blob struct {
	Head B   `json:"head,omitempty"`
	Unit B   `json:"unit,omitempty"`
	Reps int `json:"reps,omitempty"`
	Tail B   `json:"tail,omitempty"`
}

// Len returns the expanded length.
func (b Blob) Len() int { return len(b.Head) + len(b.Unit)*max(b.Reps, 0) + len(b.Tail) }

// Bytes expands the blob.
func (b Blob) Bytes() []byte {
	out := make([]byte, 0, b.Len())
	out = append(out, b.Head...)
	for i := 0; i < b.Reps; i++ {
		out = append(out, b.Unit...)
	}
	out = append(out, b.Tail...)
	return out
}

// Lit returns a blob holding just s.
func Lit(s []byte) Blob { return Blob{Head: B(s)} }

// Alphabet describes how the bytes of a field are drawn.
type Alphabet struct {
	Hostile []byte // delimiter-like bytes, biased to the first position
	Exclude []byte // bytes that must never appear
}

func (a Alphabet) excluded(c byte) bool { return bytes.IndexByte(a.Exclude, c) >= 0 }

// allowed returns all 256 byte values minus the excluded ones.
func (a Alphabet) allowed() []byte {
	var out []byte
	for i := 0; i < 256; i++ {
		if !a.excluded(byte(i)) {
			out = append(out, byte(i))
		}
	}
	return out
}

// HostileTokens are multi-byte sequences with a special meaning to some layer.
var HostileTokens = [][]byte{
	// words that some format, tool or layer gives a meaning of its own: header keywords of UCSC
	// custom tracks, missing-value spellings, percent escapes, number prefixes, comment openers
	[]byte("track"), []byte("track "), []byte("browser"), []byte("browser "), []byte("NA"), []byte("nan"), []byte("inf"), []byte("null"),
	[]byte("*"), []byte("."), []byte("="), []byte("//"), []byte("%09"), []byte("%0A"), []byte("%25"), []byte("%2F"), []byte("0x1"), []byte("1e5"),
	[]byte("chr"), []byte("true"), []byte("--"), []byte("\\t"), []byte("&"),
	[]byte("\xef\xbb\xbf"), []byte("%"), []byte("%s"), []byte("%d%!"), []byte("%%"), []byte("\x1f\x8b"), []byte("\xff\xfe"), []byte("\\n"), []byte("\u0085"), []byte("\u00a0"), []byte("\v"), []byte("\f")}

// Byte draws one byte of the alphabet (mixture: hostile, printable, uniform).
func (a Alphabet) Byte() *rapid.Generator[byte] {
	var hostile []byte
	for _, c := range a.Hostile {
		if !a.excluded(c) {
			hostile = append(hostile, c)
		}
	}
	var printable []byte
	for c := byte(0x20); c < 0x7f; c++ {
		if !a.excluded(c) {
			printable = append(printable, c)
		}
	}
	all := a.allowed()
	gens := []*rapid.Generator[byte]{rapid.SampledFrom(all)}
	if len(printable) > 0 {
		gens = append(gens, rapid.SampledFrom(printable), rapid.SampledFrom(printable))
	}
	if len(hostile) > 0 {
		gens = append(gens, rapid.SampledFrom(hostile), rapid.SampledFrom(hostile))
	}
	return rapid.OneOf(gens...)
}

// Bytes draws a byte string of length lo..hi over the alphabet; with some probability
// the first byte is hostile.
func (a Alphabet) Bytes(lo, hi int) *rapid.Generator[B] {
	bg := a.Byte()
	return rapid.Custom(func(t *rapid.T) B {
		s := rapid.SliceOfN(bg, lo, hi).Draw(t, "bytes")
		if len(s) > 0 && len(a.Hostile) > 0 && rapid.IntRange(0, 3).Draw(t, "hostileFirst") == 0 {
			c := rapid.SampledFrom(a.Hostile).Draw(t, "first")
			if !a.excluded(c) {
				s[0] = c
			}
		}
		// Multi-byte tokens that some code treats specially (byte order mark, fmt verbs,
		// gzip magic number), at the start or inside the field.
		if hi >= 4 && rapid.IntRange(0, 24).Draw(t, "token") == 17 {
			tok := rapid.SampledFrom(HostileTokens).Draw(t, "tok")
			ok := true
			for _, c := range tok {
				ok = ok && !a.excluded(c)
			}
			if ok {
				if rapid.Bool().Draw(t, "tokFirst") || len(s) == 0 {
					s = append(append([]byte{}, tok...), s...)
				} else {
					pos := rapid.IntRange(0, len(s)).Draw(t, "tokPos")
					s = append(s[:pos:pos], append(append([]byte{}, tok...), s[pos:]...)...)
				}
				if len(s) > hi {
					s = s[:hi]
				}
			}
		}
		return B(s)
	})
}

// Field draws a field over the alphabet whose length is mostly 0..small, sometimes up to
// mid and rarely up to big (long names and fields must not be a blind spot).
func (a Alphabet) Field(small, mid, big int) *rapid.Generator[B] {
	short, middle := a.Bytes(0, small), a.Bytes(small, mid)
	return rapid.Custom(func(t *rapid.T) B {
		switch rapid.IntRange(0, 19).Draw(t, "fieldsize") {
		case 0:
			return middle.Draw(t, "mid")
		case 1:
			n := rapid.IntRange(mid, big).Draw(t, "biglen")
			unit := a.Bytes(1, 9).Draw(t, "unit")
			out := make([]byte, 0, n+9)
			for len(out) < n {
				out = append(out, unit...)
			}
			return B(out[:n])
		}
		return short.Draw(t, "short")
	})
}

// Word draws a short printable word over letters/digits (uncontroversial content).
func Word(lo, hi int) *rapid.Generator[B] {
	const letters = "abcdefghijklmnopqrstuvwxyzABCDEFGHIJKLMNOPQRSTUVWXYZ0123456789"
	return rapid.Custom(func(t *rapid.T) B {
		return B(rapid.SliceOfN(rapid.SampledFrom([]byte(letters)), lo, hi).Draw(t, "word"))
	})
}

// BlobOf draws a blob whose length comes from the given length generator; lengths above
// smallMax are built as Head + Unit*Reps + Tail with short random Head/Unit/Tail.
func (a Alphabet) BlobOf(length *rapid.Generator[int], smallMax int) *rapid.Generator[Blob] {
	return rapid.Custom(func(t *rapid.T) Blob {
		n := length.Draw(t, "len")
		if n <= smallMax {
			return Blob{Head: a.Bytes(n, n).Draw(t, "head")}
		}
		head := a.Bytes(0, 6).Draw(t, "head")
		tail := a.Bytes(0, 6).Draw(t, "tail")
		unit := a.Bytes(1, 7).Draw(t, "unit")
		rest := n - len(head) - len(tail)
		reps := rest / len(unit)
		pad := rest - reps*len(unit)
		if pad > 0 {
			tail = append(a.Bytes(pad, pad).Draw(t, "pad"), tail...)
		}
		return Blob{Head: head, Unit: unit, Reps: reps, Tail: tail}
	})
}

// Lengths builds a length generator as a mixture of small lengths and named boundary values.
func Lengths(smallHi int, boundaries ...int) *rapid.Generator[int] {
	gens := []*rapid.Generator[int]{
		rapid.IntRange(0, smallHi), rapid.IntRange(0, smallHi), rapid.IntRange(0, smallHi),
		rapid.IntRange(0, 3),
	}
	if len(boundaries) > 0 {
		gens = append(gens, rapid.SampledFrom(boundaries))
	}
	return rapid.OneOf(gens...)
}

// Ints draws ints from a boundary mixture.
func Ints() *rapid.Generator[int] {
	return rapid.OneOf(
		rapid.IntRange(-3, 3),
		rapid.IntRange(0, 1000),
		rapid.Int(),
		rapid.SampledFrom([]int{0, 1, -1, 255, 256, 1 << 31, -(1 << 31), 1<<31 - 1, 1<<63 - 1, -1 << 63, 1<<63 - 2, -1<<63 + 1}),
	)
}

// Abbrev shortens a string for messages.
func Abbrev(s []byte) string {
	if len(s) <= 80 {
		return strconv.Quote(string(s))
	}
	return fmt.Sprintf("%s…(%d bytes)", strconv.Quote(string(s[:60])), len(s))
}

// Lines joins lines with a terminator and a final terminator.
func Lines(term string, lines ...string) string {
	return strings.Join(lines, term) + term
}
