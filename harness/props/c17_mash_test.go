package props

// C17: MinHash sketches depend only on the k-mer content; Mash distance obeys its laws.

import (
	"bytes"
	"fmt"
	"math"
	"slices"
	"sort"
	"testing"

	"github.com/fluhus/biostuff/mash"
	"github.com/fluhus/gostuff/minhash"
	"github.com/spaolacci/murmur3"
	"pgregory.net/rapid"
	"verif/harness/internal/gen"
	"verif/harness/internal/ref"
)

type C17Case struct {
	Kind string  `json:"kind"` // sketch | distance | jaccard
	Seqs []gen.B `json:"seqs,omitempty"`
	K    int     `json:"k,omitempty"`
	N    int     `json:"n,omitempty"`
	Seed uint32  `json:"seed,omitempty"`
	// FirstCall: the named function is run as the first call into its package in a fresh process
	FirstCall string `json:"first_call,omitempty"`
	// sketch variants
	RC        []bool `json:"rc,omitempty"`        // reverse-complement sequence i (cyclic)
	CaseMode  int    `json:"case_mode,omitempty"` // 0 keep, 1 lower, 2 upper, 3 alternate
	Rot       int    `json:"rot,omitempty"`       // rotate the list by Rot
	Dup       int    `json:"dup,omitempty"`       // duplicate sequence Dup%len
	SplitAt   int    `json:"split_at,omitempty"`  // cut sequence Dup%len at a position derived from SplitAt
	Partition []int  `json:"partition,omitempty"` // sizes of successive Add calls (cyclic)
	N2        int    `json:"n2,omitempty"`        // a smaller sketch size
	// distance
	Seqs2  []gen.B `json:"seqs2,omitempty"`
	NExact bool    `json:"n_exact,omitempty"` // sketch size = the smaller number of distinct k-mers
	// jaccard
	J1 gen.F `json:"j1,omitempty"`
	J2 gen.F `json:"j2,omitempty"`
}

func genDNAOver(t *rapid.T, alpha string, maxLen int, label string) gen.B {
	n := rapid.OneOf(rapid.IntRange(0, 12), rapid.IntRange(0, maxLen)).Draw(t, label+"len")
	return gen.B(rapid.SliceOfN(rapid.SampledFrom([]byte(alpha)), n, n).Draw(t, label))
}

func genC17(t *rapid.T, thorough bool) C17Case {
	maxLen := 300
	if thorough {
		maxLen = 2000
	}
	kind := rapid.SampledFrom([]string{"sketch", "sketch", "distance", "distance", "jaccard"}).Draw(t, "kind")
	if kind == "jaccard" {
		return C17Case{Kind: kind, K: rapid.OneOf(rapid.IntRange(1, 32), rapid.IntRange(1, 1000)).Draw(t, "k"),
			J1: gen.F(rapid.Float64Range(0, 1).Draw(t, "j1")), J2: gen.F(rapid.Float64Range(0, 1).Draw(t, "j2"))}
	}
	c := C17Case{Kind: kind}
	alpha := rapid.SampledFrom([]string{"ACGT", "AT", "aAcCgGtTnN", "ACGTN", "acgt", "AC"}).Draw(t, "alphabet")
	ns := rapid.IntRange(1, 5).Draw(t, "nseqs")
	for i := 0; i < ns; i++ {
		c.Seqs = append(c.Seqs, genDNAOver(t, alpha, maxLen, "seq"))
	}
	c.K = rapid.OneOf(rapid.IntRange(1, 4), rapid.IntRange(1, 12), rapid.SampledFrom([]int{21, 31})).Draw(t, "k")
	c.N = rapid.OneOf(rapid.IntRange(1, 8), rapid.IntRange(1, 64), rapid.IntRange(1, 1000)).Draw(t, "n")
	if rapid.Bool().Draw(t, "seeded") {
		c.Seed = rapid.Uint32().Draw(t, "seed")
	}
	if kind == "sketch" {
		c.RC = rapid.SliceOfN(rapid.Bool(), 1, 5).Draw(t, "rc")
		c.CaseMode = rapid.IntRange(0, 3).Draw(t, "case")
		c.Rot = rapid.IntRange(0, 4).Draw(t, "rot")
		c.Dup = rapid.IntRange(0, 4).Draw(t, "dup")
		c.SplitAt = rapid.IntRange(0, 1000).Draw(t, "split")
		c.Partition = rapid.SliceOfN(rapid.IntRange(0, 3), 1, 4).Draw(t, "partition")
		c.N2 = rapid.IntRange(1, max(1, c.N)).Draw(t, "n2")
		return c
	}
	// distance: a second set that is identical in content, related, or unrelated
	switch rapid.IntRange(0, 4).Draw(t, "relation") {
	case 0: // same content, other strand / order
		for i := len(c.Seqs) - 1; i >= 0; i-- {
			s := c.Seqs[i]
			if i%2 == 0 {
				s = ref.RevComp(s)
			}
			c.Seqs2 = append(c.Seqs2, gen.B(bytes.ToLower(s)))
		}
	case 1: // related: a few edits
		for _, s := range c.Seqs {
			c.Seqs2 = append(c.Seqs2, genRelated(t, s, []byte(alpha)))
		}
	case 4: // same length, a few substitutions, sketch size = number of k-mers (exactly full, nothing evicted)
		one := genDNAOver(t, "ACGT", 60, "one")
		other := bytes.Clone(one)
		for e := rapid.IntRange(0, 3).Draw(t, "nsub"); e > 0 && len(other) > 0; e-- {
			other[rapid.IntRange(0, len(other)-1).Draw(t, "subpos")] = rapid.SampledFrom([]byte("ACGT")).Draw(t, "subbase")
		}
		c.Seqs, c.Seqs2, c.NExact = []gen.B{one}, []gen.B{gen.B(other)}, true
		c.K = rapid.IntRange(4, 9).Draw(t, "kexact")
	case 2: // disjoint k-mer content: AT-only versus CG-only
		c.Seqs = []gen.B{genDNAOver(t, "AT", maxLen, "at")}
		c.Seqs2 = []gen.B{genDNAOver(t, "CG", maxLen, "cg")}
	default:
		n2 := rapid.IntRange(1, 3).Draw(t, "nseqs2")
		for i := 0; i < n2; i++ {
			c.Seqs2 = append(c.Seqs2, genDNAOver(t, alpha, maxLen, "seq2"))
		}
	}
	return c
}

// refHashes returns the distinct hash values of the canonical upper-cased k-mers.
func refHashes(seqs [][]byte, k int, seed uint32) (set map[uint64]struct{}, palin bool, short bool) {
	set = map[uint64]struct{}{}
	for _, s := range seqs {
		u := bytes.ToUpper(s)
		if len(u) < k {
			short = true
		}
		for i := 0; i+k <= len(u); i++ {
			km := u[i : i+k]
			c := ref.Canonical(km)
			if bytes.Equal(ref.RevComp(km), km) {
				palin = true
			}
			set[murmur3.Sum64WithSeed(c, seed)] = struct{}{}
		}
	}
	return
}

// bottomDesc returns the n smallest values of set in descending order.
func bottomDesc(set map[uint64]struct{}, n int) []uint64 {
	all := make([]uint64, 0, len(set))
	for h := range set {
		all = append(all, h)
	}
	slices.Sort(all)
	if len(all) > n {
		all = all[:n]
	}
	slices.Reverse(all)
	return all
}

func toSlices(bs []gen.B) [][]byte {
	out := make([][]byte, len(bs))
	for i, b := range bs {
		out[i] = bytes.Clone(b)
	}
	return out
}

func validRCSeqs(seqs []gen.B) bool {
	for _, s := range seqs {
		for _, b := range s {
			if !ref.IsRCLetter(b) {
				return false
			}
		}
	}
	return true
}

func sketchView(n, k int, seqs [][]byte) (view []uint64, err error) {
	// the sequences are a batch cut out of a longer list of the caller (records[i:i+b]...): the
	// records behind the batch are not the library's to touch
	guard1, guard2 := []byte("GUARD-1"), []byte("GUARD-2")
	arena := make([][]byte, len(seqs)+2)
	copy(arena, seqs)
	arena[len(seqs)], arena[len(seqs)+1] = guard1, guard2
	if p := catch(func() { view = slices.Clone(mash.Sequences(n, k, arena[:len(seqs)]...).View()) }); p != nil {
		return nil, fmt.Errorf("Sequences(n=%d,k=%d) panicked: %v", n, k, p)
	}
	if string(arena[len(seqs)]) != "GUARD-1" || string(arena[len(seqs)+1]) != "GUARD-2" || len(arena[len(seqs)]) == 0 || &arena[len(seqs)][0] != &guard1[0] {
		return nil, fmt.Errorf("Sequences(n=%d,k=%d) wrote to the caller's list behind the %d sequences it was given (the next records of the caller)", n, k, len(seqs))
	}
	for i := range seqs {
		if len(arena[i]) != len(seqs[i]) || (len(seqs[i]) > 0 && &arena[i][0] != &seqs[i][0]) {
			return nil, fmt.Errorf("Sequences(n=%d,k=%d) replaced sequence %d in the caller's list", n, k, i)
		}
	}
	return view, nil
}

func checkC17(c C17Case, o *Obs) error {
	if c.FirstCall != "" {
		o.NT = true
		o.Class("first call in a fresh process")
		return runFirstCall(c.FirstCall)
	}
	o.Class("kind:" + c.Kind)
	if c.Kind == "jaccard" {
		return checkFromJaccard(c, o)
	}
	if c.K < 1 || c.N < 1 || c.N > 1<<20 || !validRCSeqs(c.Seqs) || !validRCSeqs(c.Seqs2) || len(c.Seqs) == 0 {
		return nil
	}
	if keepTempUntilBatchEnd {
		// Concurrent stage: mash.Seed is a package-level setting, which a program sets once; the
		// cases checked at the same time all use the seed that is in force.
		c.Seed = mash.Seed
	} else {
		old := mash.Seed
		mash.Seed = c.Seed
		defer func() { mash.Seed = old }()
	}
	o.ClassIf(c.Seed != 0, "non-zero seed")
	if c.Kind == "distance" {
		return checkDistance(c, o)
	}

	seqs := toSlices(c.Seqs)
	set, palin, short := refHashes(seqs, c.K, c.Seed)
	want := bottomDesc(set, c.N)
	o.NT = len(seqs) >= 2 && len(set) > c.N
	o.ClassIf(palin, "palindromic k-mer")
	o.ClassIf(short, "k>len of some sequence")
	o.ClassIf(len(set) > c.N, "bound bites")
	o.ClassIf(len(set) == 0, "no k-mers")
	hasN := false
	for _, s := range seqs {
		if bytes.ContainsAny(s, "nN") {
			hasN = true
		}
	}
	o.ClassIf(hasN, "has N")

	if (len(seqs)+c.K)%2 == 0 {
		// earlier in the process a call was given a file with a bad record after good ones, and
		// the program recovered from the panic
		catch(func() {
			mash.Sequences(c.N, c.K, []byte("GGCATTCGAGGCTTAACCGATAGGCTATCGGATACCGATTTAGCGGCATATCGCGTAGCTAGGATCTTAGCGGCTAAAGTCGCGATTCCAGGTCTGAAGCTCCGATAGGA"),
				[]byte("ACGTTGCAGATTACAGATTACAXGATTACAGATTACAACGTTGCAGATTACAGATTACAGATTACAGATTACAGATTACAGATTACAGATTACAGATTACAGATTACAGA"))
		})
	}
	base, err := sketchView(c.N, c.K, seqs)
	if err != nil {
		return err
	}
	for i := range seqs {
		if !bytes.Equal(seqs[i], c.Seqs[i]) {
			return fmt.Errorf("Sequences modified input sequence %d", i)
		}
	}
	if !slices.Equal(base, want) {
		return fmt.Errorf("Sequences(n=%d,k=%d,%q) (seed %d) = %v, want the %d smallest distinct canonical k-mer hashes in descending order %v",
			c.N, c.K, c.Seqs, c.Seed, base, c.N, want)
	}
	// The caller's sequence buffers are edited in place between two calls (a read buffer refilled
	// with a read of the same length, a window whose middle bases are substituted - the first and
	// last 40 bases stay): the second call is about what the buffers hold then.
	{
		bufs := toSlices(c.Seqs)
		longest := -1
		for i, b := range bufs {
			if len(b) >= 100 && (longest < 0 || len(b) > len(bufs[longest])) {
				longest = i
			}
		}
		if longest >= 0 {
			o.Class("sequence buffer edited in place between two calls")
			catch(func() { mash.Sequences(c.N, c.K, bufs...) })
			b := bufs[longest]
			for i := 40 + len(b)%7; i < len(b)-40; i += 7 {
				switch b[i] | 0x20 {
				case 'a':
					b[i] = b[i]&0x20 | 'C'
				case 'c':
					b[i] = b[i]&0x20 | 'G'
				case 'g':
					b[i] = b[i]&0x20 | 'T'
				default:
					b[i] = b[i]&0x20 | 'A'
				}
			}
			set2, _, _ := refHashes(bufs, c.K, c.Seed)
			want2 := bottomDesc(set2, c.N)
			var got2 []uint64
			if p := catch(func() { got2 = slices.Clone(mash.Sequences(c.N, c.K, bufs...).View()) }); p != nil {
				return fmt.Errorf("Sequences(n=%d,k=%d) panicked on buffers edited in place after an earlier call: %v", c.N, c.K, p)
			}
			if !slices.Equal(got2, want2) {
				return fmt.Errorf("Sequences(n=%d,k=%d) was called on the caller's buffers, the caller substituted every 7th base in the middle of sequence %d (%d bases; the first and last 40 untouched) in place and called again: the second sketch has %d values and differs from the %d smallest hashes of what the buffers hold now (is it the sketch of the old contents: %v)",
					c.N, c.K, longest, len(b), len(got2), len(want2), slices.Equal(got2, base))
			}
		}
	}
	same := func(what string, variant [][]byte) error {
		v, err := sketchView(c.N, c.K, variant)
		if err != nil {
			return fmt.Errorf("%s: %v", what, err)
		}
		if !slices.Equal(v, base) {
			return fmt.Errorf("%s changes the sketch: Sequences(n=%d,k=%d) of %q = %v, of %q = %v", what, c.N, c.K, c.Seqs, base, variant, v)
		}
		return nil
	}
	// reverse-complement a subset
	if len(c.RC) > 0 {
		v := toSlices(c.Seqs)
		for i := range v {
			if c.RC[i%len(c.RC)] {
				v[i] = ref.RevComp(v[i])
			}
		}
		if err := same("reverse-complementing sequences", v); err != nil {
			return err
		}
	}
	// letter case
	if c.CaseMode != 0 {
		v := toSlices(c.Seqs)
		for i := range v {
			switch c.CaseMode {
			case 1:
				v[i] = bytes.ToLower(v[i])
			case 2:
				v[i] = bytes.ToUpper(v[i])
			default:
				for j := range v[i] {
					if j%2 == 0 {
						v[i][j] |= 0x20
					} else {
						v[i][j] &^= 0x20
					}
				}
			}
		}
		if err := same("changing letter case", v); err != nil {
			return err
		}
	}
	// order
	{
		v := toSlices(c.Seqs)
		r := c.Rot % len(v)
		v = append(v[r:], v[:r]...)
		slices.Reverse(v)
		if err := same("reordering the sequences", v); err != nil {
			return err
		}
	}
	// duplicate one sequence; cut one sequence into two pieces overlapping by k-1
	d := c.Dup % len(seqs)
	if err := same("duplicating a sequence", append(toSlices(c.Seqs), bytes.Clone(seqs[d]))); err != nil {
		return err
	}
	if s := seqs[d]; len(s) > c.K {
		p := 1 + c.SplitAt%(len(s)-c.K) // 1 <= p <= len-k
		v := toSlices(c.Seqs)
		v[d] = bytes.Clone(s[:p+c.K-1])
		v = append(v, bytes.Clone(s[p:]))
		o.Class("split with k-1 overlap")
		if err := same("cutting a sequence into two pieces that overlap by k-1", v); err != nil {
			return err
		}
	}
	// incremental construction with Add
	if len(c.Partition) > 0 {
		var mh *minhash.MinHash[uint64]
		adds := 0
		if p := catch(func() {
			mh = minhash.New[uint64](c.N)
			rest := toSlices(c.Seqs)
			for i := 0; len(rest) > 0; i++ {
				sz := min(c.Partition[i%len(c.Partition)], len(rest))
				if sz == 0 && i >= 2*len(c.Partition) {
					sz = len(rest)
				}
				mash.Add(mh, c.K, rest[:sz]...)
				adds++
				rest = rest[sz:]
			}
		}); p != nil {
			return fmt.Errorf("incremental Add panicked: %v", p)
		}
		o.ClassIf(adds >= 3, "partition into >=3 Adds")
		if v := mh.View(); !slices.Equal(v, base) {
			return fmt.Errorf("building with %d successive Add calls (partition %v) gives %v, Sequences gives %v (seqs %q, n=%d, k=%d)", adds, c.Partition, v, base, c.Seqs, c.N, c.K)
		}
	}
	// a sketch started with Sequences on the first sequences and extended with Add
	if len(seqs) >= 2 {
		cut := 1 + c.Rot%(len(seqs)-1)
		var mh *minhash.MinHash[uint64]
		if p := catch(func() {
			mh = mash.Sequences(c.N, c.K, toSlices(c.Seqs)[:cut]...)
			mash.Add(mh, c.K, toSlices(c.Seqs)[cut:]...)
		}); p != nil {
			return fmt.Errorf("Sequences followed by Add panicked: %v", p)
		}
		if v := mh.View(); !slices.Equal(v, base) {
			return fmt.Errorf("Sequences(n=%d,k=%d) on the first %d sequences followed by Add of the rest gives %v, one call gives %v (seqs %q)", c.N, c.K, cut, v, base, c.Seqs)
		}
	}
	// two sketches under construction at the same time: Add calls on one alternate with Add calls
	// on the other (same sequences in reverse order and lower case); both end up as the sketch
	if len(seqs) >= 2 {
		var a, b *minhash.MinHash[uint64]
		if p := catch(func() {
			a, b = minhash.New[uint64](c.N), minhash.New[uint64](c.N)
			for i := range seqs {
				mash.Add(a, c.K, bytes.Clone(seqs[i]))
				mash.Add(b, c.K, bytes.ToLower(seqs[len(seqs)-1-i]))
			}
		}); p != nil {
			return fmt.Errorf("two sketches built with alternating Add calls panicked: %v", p)
		}
		if va, vb := a.View(), b.View(); !slices.Equal(va, base) || !slices.Equal(vb, base) {
			return fmt.Errorf("two sketches built with alternating Add calls (the second from the same sequences in reverse order and lower case) give %v and %v, Sequences gives %v (seqs %q, n=%d, k=%d)", va, vb, base, c.Seqs, c.N, c.K)
		}
	}
	// a smaller sketch is the tail of the larger one
	if n2 := c.N2; n2 >= 1 && n2 < c.N {
		small, err := sketchView(n2, c.K, seqs)
		if err != nil {
			return err
		}
		tail := base
		if len(tail) > n2 {
			tail = tail[len(tail)-n2:]
		}
		if !slices.Equal(small, tail) {
			return fmt.Errorf("Sequences(n=%d) = %v is not the tail of Sequences(n=%d) = %v", n2, small, c.N, base)
		}
	}
	return nil
}

func checkDistance(c C17Case, o *Obs) error {
	a, b := toSlices(c.Seqs), toSlices(c.Seqs2)
	if len(b) == 0 {
		return nil
	}
	setA, _, _ := refHashes(a, c.K, c.Seed)
	setB, _, _ := refHashes(b, c.K, c.Seed)
	full := min(len(setA), len(setB))
	if full == 0 {
		o.Class("no full sketch possible")
		return nil
	}
	n := 1 + (c.N-1)%full // both sketches are full by construction
	if c.NExact {
		n = full // exactly full: as many distinct k-mers as the sketch holds
		o.Class("exactly full sketches")
	}
	var mhA, mhB *minhash.MinHash[uint64]
	var dAB, dBA, dAA float64
	if p := catch(func() {
		mhA, mhB = mash.Sequences(n, c.K, a...), mash.Sequences(n, c.K, b...)
		dAB, dBA, dAA = mash.Distance(mhA, mhB, c.K), mash.Distance(mhB, mhA, c.K), mash.Distance(mhA, mhA, c.K)
	}); p != nil {
		return fmt.Errorf("Distance panicked: %v", p)
	}
	// frozen copies are full sketches of the same size too
	var dFF, dFM float64
	if p := catch(func() {
		fa, fb := mhA.Frozen(), mhB.Frozen()
		dFF, dFM = mash.Distance(fa, fb, c.K), mash.Distance(fa, mhB, c.K)
	}); p != nil {
		return fmt.Errorf("Distance on frozen sketches panicked: %v", p)
	}
	if dFF != dAB || dFM != dAB {
		return fmt.Errorf("Distance differs for frozen copies of the same sketches: %v (both frozen), %v (one frozen), %v (neither)", dFF, dFM, dAB)
	}
	if len(mhA.View()) != n || len(mhB.View()) != n {
		return fmt.Errorf("sketches are not full: %d and %d of %d", len(mhA.View()), len(mhB.View()), n)
	}
	// A sketch variable that is refilled (the next sample loaded into the same object): the
	// distance is about what the sketches hold now. The replacement has the same number of
	// k-mers (every base rotated A->C->G->T->A), so nothing but the content tells them apart.
	{
		rot := make([][]byte, len(a))
		for i, s := range a {
			rot[i] = bytes.Map(func(r rune) rune {
				switch r {
				case 'A', 'a':
					return r + 2 // C, c
				case 'C', 'c':
					return r + 4 // G, g
				case 'G', 'g':
					return r + 13 // T, t
				case 'T', 't':
					return r - 19 // A, a
				}
				return r
			}, s)
		}
		var dFresh, dRefilled float64
		if p := catch(func() {
			mhC := mash.Sequences(n, c.K, rot...)
			dFresh = mash.Distance(mhC, mhB, c.K)
			mash.Distance(mhA, mhB, c.K) // the call right before the refill
			*mhA = *mash.Sequences(n, c.K, rot...)
			dRefilled = mash.Distance(mhA, mhB, c.K)
			*mhA = *mash.Sequences(n, c.K, a...)
		}); p == nil && dFresh != dRefilled && !(math.IsNaN(dFresh) && math.IsNaN(dRefilled)) {
			return fmt.Errorf("Distance(x, b) = %v after the sketch object x was refilled with another sample of the same size, but %v for a fresh sketch of that sample (seqs %q -> %q, b %q, n=%d, k=%d)", dRefilled, dFresh, c.Seqs, rot, c.Seqs2, n, c.K)
		}
	}
	// reference Jaccard: shared fraction of the n smallest values of the union
	union := map[uint64]struct{}{}
	for h := range setA {
		union[h] = struct{}{}
	}
	for h := range setB {
		union[h] = struct{}{}
	}
	shared := 0
	for _, h := range bottomDesc(union, n) {
		_, inA := setA[h]
		_, inB := setB[h]
		if inA && inB {
			shared++
		}
	}
	j := float64(shared) / float64(n)
	want := 1.0
	if shared > 0 {
		want = math.Min(1, -math.Log(2*j/(1+j))/float64(c.K))
	}
	o.NT = n >= 2
	o.ClassIf(shared == 0, "j=0")
	o.ClassIf(shared == n, "j=1")
	o.ClassIf(shared > 0 && shared < n, "0<j<1")
	if dAB != dBA {
		return fmt.Errorf("Distance is not symmetric: d(a,b)=%v d(b,a)=%v (a=%q b=%q n=%d k=%d)", dAB, dBA, c.Seqs, c.Seqs2, n, c.K)
	}
	if !(dAB >= 0 && dAB <= 1) {
		return fmt.Errorf("Distance %v outside [0,1] (a=%q b=%q n=%d k=%d)", dAB, c.Seqs, c.Seqs2, n, c.K)
	}
	if dAA != 0 {
		return fmt.Errorf("Distance of a sketch to itself is %v, want 0", dAA)
	}
	sameContent := len(setA) == len(setB)
	if sameContent {
		for h := range setA {
			if _, ok := setB[h]; !ok {
				sameContent = false
				break
			}
		}
	}
	if sameContent {
		o.Class("identical k-mer content")
		if dAB != 0 {
			return fmt.Errorf("Distance between sketches of identical k-mer content is %v, want 0 (a=%q b=%q n=%d k=%d)", dAB, c.Seqs, c.Seqs2, n, c.K)
		}
	}
	if math.Abs(dAB-want) > 1e-12*math.Max(1, math.Abs(want)) {
		return fmt.Errorf("Distance = %v, want min(1,-ln(2j/(1+j))/k) = %v with j=%d/%d, k=%d (a=%q b=%q)", dAB, want, shared, n, c.K, c.Seqs, c.Seqs2)
	}
	return nil
}

func checkFromJaccard(c C17Case, o *Obs) error {
	k := c.K
	if k < 1 {
		return nil
	}
	j1, j2 := float64(c.J1), float64(c.J2)
	if !(j1 >= 0 && j1 <= 1 && j2 >= 0 && j2 <= 1) {
		return nil
	}
	if j1 > j2 {
		j1, j2 = j2, j1
	}
	o.NT = j1 != j2
	f1, f2 := mash.FromJaccard(j1, k), mash.FromJaccard(j2, k)
	for _, x := range []struct{ j, f float64 }{{j1, f1}, {j2, f2}} {
		want := 1.0
		if x.j > 0 {
			want = math.Min(1, -math.Log(2*x.j/(1+x.j))/float64(k))
		}
		if !(x.f >= 0 && x.f <= 1) || math.Abs(x.f-want) > 1e-12 {
			return fmt.Errorf("FromJaccard(%v,%d) = %v, want %v", x.j, k, x.f, want)
		}
	}
	if f1 < f2-1e-12 {
		return fmt.Errorf("FromJaccard is not non-increasing in j: F(%v,%d)=%v < F(%v,%d)=%v", j1, k, f1, j2, k, f2)
	}
	if mash.FromJaccard(1, k) != 0 || mash.FromJaccard(0, k) != 1 {
		return fmt.Errorf("FromJaccard(1,%d)=%v FromJaccard(0,%d)=%v, want 0 and 1", k, mash.FromJaccard(1, k), k, mash.FromJaccard(0, k))
	}
	return nil
}

func exhaustiveC17(thorough bool, emit func(C17Case) bool) {
	if !emit(C17Case{FirstCall: "mash.Sequences"}) {
		return
	}
	if !emit(C17Case{FirstCall: "mash.FromJaccard"}) {
		return
	}
	// one chromosome-arm-sized sequence (beyond 2^18 bases) between two short records
	if !emit(C17Case{Kind: "sketch", Seqs: []gen.B{gen.B("ACGTTGCAATGGCCA"), realDNA(300007, 3, true, true), gen.B("TTGACCAGTAGGATCCA")}, K: 21, N: 1000, RC: []bool{true, false}, Rot: 1, Partition: []int{1, 2}, N2: 9}) {
		return
	}
	// contig-sized single sequences (size ladder) and read sets (thousands of short reads in one
	// call, totalling more than any internal batch), real-data-shaped
	for i, n := range sizeLadder {
		if n < 4000 {
			continue
		}
		s := realDNA(n, i, true, true)
		// every other case with a sketch large enough to hold every distinct k-mer, so that a single
		// lost or invented k-mer shows
		size := 50 + i
		if i%2 == 0 {
			size = n + 16
		}
		c := C17Case{Kind: "sketch", Seqs: []gen.B{gen.B("ACGTTGCAAT"), s}, K: []int{5, 16, 21, 31, 32, 48}[i%6], N: size, RC: []bool{false, true}, CaseMode: 2, Rot: 1, Dup: 0, SplitAt: n / 3, Partition: []int{1}, N2: 7}
		if !emit(c) {
			return
		}
	}
	// every k from 1 to 70 on one real-data-shaped sequence (k-mer lengths around the block sizes of hash functions)
	// more than 2^20 k-mers with very uneven diversity: 300 kb of sequence followed by a 1 Mb gap
	// of N, and a tandem repeat followed by unique sequence; sketches larger than 1024
	{
		arm := realDNA(300000, 21, false, true)
		gap := append(bytes.Clone(arm), bytes.Repeat([]byte("N"), 1000000)...)
		unit := realDNA(5000, 22, false, false)
		rep := append(bytes.Repeat(unit, 200), realDNA(320000, 23, false, false)...)
		// (and 2.3 Mb of sequence: the sketch holds less than 1/256 of the k-mers)
		for _, sq := range [][]byte{gap, rep, realDNA(2300000, 24, false, true)} {
			if !emit(C17Case{Kind: "sketch", Seqs: []gen.B{sq}, K: 21, N: 4096, RC: []bool{false}, Partition: []int{1}, N2: 1500}) {
				return
			}
		}
	}
	for k := 1; k <= 70; k++ {
		if !emit(C17Case{Kind: "sketch", Seqs: []gen.B{realDNA(300, k, true, true), gen.B("ACGTTGCAAT")}, K: k, N: 400, RC: []bool{true}, CaseMode: 1, Partition: []int{1}, N2: 3}) {
			return
		}
	}
	for _, readLen := range []int{30, 100, 151} {
		long := realDNA(80000, readLen, true, true)
		var reads []gen.B
		for at := 0; at+readLen <= len(long); at += readLen - readLen/5 {
			reads = append(reads, gen.B(long[at:at+readLen]))
		}
		if !emit(C17Case{Kind: "sketch", Seqs: reads, K: 21, N: min(1<<20, 200+1000*(readLen%3)*len(reads)), RC: []bool{true, false, false}, CaseMode: 1, Rot: 17, Dup: 3, SplitAt: 40, Partition: []int{1, 500, 3}, N2: 20}) {
			return
		}
	}
	// FromJaccard on the grid j=i/1000, k=1..32, adjacent pairs
	for k := 1; k <= 32; k++ {
		for i := 0; i < 1000; i++ {
			if !emit(C17Case{Kind: "jaccard", K: k, J1: gen.F(float64(i) / 1000), J2: gen.F(float64(i+1) / 1000)}) {
				return
			}
		}
	}
	// all DNA sequences of length <= 4 (thorough 5) over ACGT, alone and paired with a fixed sequence,
	// k in 1..3, n in {1,2,5}
	maxLen := 4
	if thorough {
		maxLen = 5
	}
	seqs := allSeqs([]byte("ACGT"), maxLen)
	sort.Slice(seqs, func(i, j int) bool { return len(seqs[i]) < len(seqs[j]) })
	for _, s := range seqs {
		for k := 1; k <= 3; k++ {
			for _, n := range []int{1, 2, 5} {
				c := C17Case{Kind: "sketch", Seqs: []gen.B{s, gen.B("ACGTTGCAAT")}, K: k, N: n, RC: []bool{true, false}, CaseMode: 3, Rot: 1, Dup: 0, SplitAt: n + k, Partition: []int{1}, N2: 1}
				if !emit(c) {
					return
				}
				d := C17Case{Kind: "distance", Seqs: []gen.B{s}, Seqs2: []gen.B{gen.B("ACGTTGCAAT"), s}, K: k, N: n}
				if !emit(d) {
					return
				}
			}
		}
	}
}

func propC17() Prop[C17Case] {
	return Prop[C17Case]{ID: "C17", Gen: genC17, Exhaustive: exhaustiveC17, Check: checkC17}
}

func TestC17(t *testing.T) { Run(t, propC17()) }

func FuzzGenC17(f *testing.F) { RunFuzz(f, propC17()) }

func TestRaceC17(t *testing.T) { RunConcurrent(t, propC17(), 4) }
