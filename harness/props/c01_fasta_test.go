package props

// C01: FASTA records survive write -> read unchanged, however lines are wrapped.

import (
	"bytes"
	"fmt"
	"testing"

	"github.com/fluhus/biostuff/formats/fasta"
	"pgregory.net/rapid"
	"verif/harness/internal/gen"
)

type FastaRec struct {
	Name gen.B    `json:"name"`
	Seq  gen.Blob `json:"seq"`
}

// FastaLayout describes an alternative line layout of the same records. Widths and
// Blanks are applied cyclically: sequence line i of a record has Widths[i%len] bytes and
// is followed by Blanks[(i+1)%len] blank lines; the name line is followed by Blanks[0].
type FastaLayout struct {
	Widths    []int `json:"widths"`
	Blanks    []int `json:"blanks"`
	CRLF      bool  `json:"crlf"`
	NoFinalNL bool  `json:"no_final_nl"`
}

type C01Case struct {
	Recs   []FastaRec   `json:"recs"`
	Layout *FastaLayout `json:"layout,omitempty"` // nil: canonical write->read check
}

var fastaNameAlpha = gen.Alphabet{Hostile: []byte(">@+;# \t\x00\x7f\x80\xff\"'"), Exclude: []byte("\r\n")}
var fastaSeqAlpha = gen.Alphabet{Hostile: []byte("@+;# \t\x00\x7f\x80\xff\"'*-"), Exclude: []byte("\r\n>")}

func genFastaRec(thorough bool) *rapid.Generator[FastaRec] {
	bounds := []int{79, 80, 81, 159, 160, 161, 240, 800, 4095, 4096, 4097, 65535, 65536, 65537, 70000, 80 * 1000}
	if thorough {
		bounds = append(bounds, 1<<20, 1<<20+1, 3<<20)
	}
	seq := fastaSeqAlpha.BlobOf(gen.Lengths(170, bounds...), 330)
	return rapid.Custom(func(t *rapid.T) FastaRec {
		return FastaRec{
			Name: fastaNameAlpha.Field(12, 120, 9000).Draw(t, "name"),
			Seq:  seq.Draw(t, "seq"),
		}
	})
}

func genC01(t *rapid.T, thorough bool) C01Case {
	var c C01Case
	n := rapid.SampledFrom([]int{0, 1, 1, 1, 2, 2, 3, 4, 5, 8}).Draw(t, "nrecs")
	c.Recs = rapid.SliceOfN(genFastaRec(thorough), n, n).Draw(t, "recs")
	if rapid.Bool().Draw(t, "withLayout") {
		c.Layout = &FastaLayout{
			Widths:    rapid.SliceOfN(rapid.OneOf(rapid.IntRange(1, 5), rapid.IntRange(1, 200), rapid.SampledFrom([]int{1, 60, 70, 80, 81, 100000})), 1, 5).Draw(t, "widths"),
			Blanks:    rapid.SliceOfN(rapid.SampledFrom([]int{0, 0, 0, 0, 1, 2, 3}), 1, 4).Draw(t, "blanks"),
			CRLF:      rapid.Bool().Draw(t, "crlf"),
			NoFinalNL: rapid.Bool().Draw(t, "nofinal"),
		}
	}
	return c
}

// renderFasta lays the records out as the layout says.
func renderFasta(recs []FastaRec, l *FastaLayout) []byte {
	term := "\n"
	if l.CRLF {
		term = "\r\n"
	}
	var buf bytes.Buffer
	blank := func(i int) {
		for k := 0; k < l.Blanks[i%len(l.Blanks)]; k++ {
			buf.WriteString(term)
		}
	}
	for _, r := range recs {
		buf.WriteByte('>')
		buf.Write(r.Name)
		buf.WriteString(term)
		blank(0)
		seq := r.Seq.Bytes()
		for i := 0; len(seq) > 0; i++ {
			w := min(l.Widths[i%len(l.Widths)], len(seq))
			buf.Write(seq[:w])
			buf.WriteString(term)
			seq = seq[w:]
			blank(i + 1)
		}
	}
	out := buf.Bytes()
	if l.NoFinalNL {
		// Drop trailing terminators (all of them: blank lines at the end are terminators too,
		// and "omitting the final newline" must leave a text that does not end in a newline).
		for len(out) > 0 && (out[len(out)-1] == '\n' || out[len(out)-1] == '\r') {
			out = out[:len(out)-1]
		}
	}
	return out
}

func readFastaAll(data []byte) ([]*fasta.Fasta, error) {
	var got []*fasta.Fasta
	n := 0
	for fa, err := range fasta.Reader(bytes.NewReader(data)) {
		n++
		if n > len(data)+8 {
			return got, fmt.Errorf("reader yields more items than input bytes (%d)", n)
		}
		if err != nil {
			return got, fmt.Errorf("reader error after %d records: %v", len(got), err)
		}
		got = append(got, fa)
	}
	return got, nil
}

func compareFasta(got []*fasta.Fasta, want []FastaRec, seqs [][]byte) error {
	if len(got) != len(want) {
		return fmt.Errorf("read %d records, wrote %d", len(got), len(want))
	}
	for i := range want {
		if got[i] == nil {
			return fmt.Errorf("record %d is nil", i)
		}
		if !bytes.Equal(got[i].Name, want[i].Name) {
			return fmt.Errorf("record %d: name %s, want %s", i, gen.Abbrev(got[i].Name), gen.Abbrev(want[i].Name))
		}
		if !bytes.Equal(got[i].Sequence, seqs[i]) {
			return fmt.Errorf("record %d: sequence %s (len %d), want %s (len %d)", i,
				gen.Abbrev(got[i].Sequence), len(got[i].Sequence), gen.Abbrev(seqs[i]), len(seqs[i]))
		}
	}
	return nil
}

func checkC01(c C01Case, o *Obs) error {
	seqs := make([][]byte, len(c.Recs))
	multiLine := false
	for i, r := range c.Recs {
		seqs[i] = r.Seq.Bytes()
		n := len(seqs[i])
		multiLine = multiLine || n > 80
		o.ClassIf(n == 0, "len==0")
		o.ClassIf(n > 0 && n%80 == 0, "len%80==0")
		o.ClassIf(n%80 == 1, "len%80==1")
		o.ClassIf(n%80 == 79, "len%80==79")
		o.ClassIf(n >= 65536, ">=64KiB")
		o.ClassIf(len(r.Name) == 0, "empty name")
	}
	o.ClassIf(len(c.Recs) == 0, "no records")
	o.ClassIf(len(c.Recs) >= 2, "records>=2")
	o.NT = multiLine || len(c.Recs) >= 2 || (c.Layout != nil && len(c.Recs) > 0)

	if c.Layout != nil {
		l := c.Layout
		if len(l.Widths) == 0 || len(l.Blanks) == 0 {
			return nil // malformed replay file; nothing to check
		}
		for _, w := range l.Widths {
			if w < 1 {
				return nil
			}
		}
		o.Class("layout")
		o.ClassIf(l.CRLF, "crlf")
		o.ClassIf(l.NoFinalNL, "no final newline")
		hasBlank := false
		for _, b := range l.Blanks {
			hasBlank = hasBlank || b > 0
		}
		o.ClassIf(hasBlank, "blank lines")
		text := renderFasta(c.Recs, l)
		got, err := readFastaAll(text)
		if err != nil {
			return fmt.Errorf("layout %+v: %v", *l, err)
		}
		if err := compareFasta(got, c.Recs, seqs); err != nil {
			return fmt.Errorf("layout %+v: %v", *l, err)
		}
		return nil
	}

	o.Class("canonical")
	var all bytes.Buffer
	var keeper marshalKeeper
	var fields [][]byte
	for i, r := range c.Recs {
		fields = append(fields, r.Name, seqs[i])
	}
	ar := newArena(fields...)
	for i, r := range c.Recs {
		fa := &fasta.Fasta{Name: ar.field(2 * i), Sequence: ar.field(2*i + 1)}
		var w bytes.Buffer
		if err := fa.Write(&w); err != nil {
			return fmt.Errorf("record %d: Write to a buffer failed: %v", i, err)
		}
		if err := samePlain(fa.Write, w.Bytes()); err != nil {
			return fmt.Errorf("record %d: %v", i, err)
		}
		if err := writeAfterFailure(fa.Write, w.Bytes()); err != nil {
			return fmt.Errorf("record %d: %v", i, err)
		}
		var mt []byte
		var merr error
		if p := catch(func() { mt, merr = fa.MarshalText() }); p != nil {
			return fmt.Errorf("record %d: MarshalText panicked: %v", i, p)
		}
		if merr != nil {
			return fmt.Errorf("record %d: MarshalText failed: %v", i, merr)
		}
		if !bytes.Equal(mt, w.Bytes()) {
			return fmt.Errorf("record %d: MarshalText %s differs from Write %s", i, gen.Abbrev(mt), gen.Abbrev(w.Bytes()))
		}
		if !bytes.Equal(fa.Name, r.Name) || !bytes.Equal(fa.Sequence, seqs[i]) {
			return fmt.Errorf("record %d: writer modified the record", i)
		}
		if err := fastaShape(w.Bytes(), r.Name, seqs[i]); err != nil {
			return fmt.Errorf("record %d: %v", i, err)
		}
		all.Write(w.Bytes())
		keeper.keep(fmt.Sprintf("record %d", i), mt)
	}
	(&fasta.Fasta{Name: []byte("another record"), Sequence: seqOfLen(97)}).MarshalText()
	if err := keeper.verify(); err != nil {
		return err
	}
	if err := ar.verify(); err != nil {
		return err
	}
	got, err := readFastaAll(all.Bytes())
	if err != nil {
		return err
	}
	if err := compareFasta(got, c.Recs, seqs); err != nil {
		return err
	}
	// A consumer owns the records it received: modifying them in place while iterating must
	// not affect the records that follow.
	i := 0
	for fa, err := range fasta.Reader(bytes.NewReader(all.Bytes())) {
		if err != nil || i >= len(c.Recs) {
			return fmt.Errorf("second pass: item %d: unexpected item (error %v)", i, err)
		}
		if err := compareFasta([]*fasta.Fasta{fa}, c.Recs[i:i+1], seqs[i:i+1]); err != nil {
			return fmt.Errorf("after the consumer modified the records it received earlier in the same pass: record %d: %v", i, err)
		}
		// appending to one field of a record (a "/1" behind the name) must not reach the other
		seqBefore := bytes.Clone(fa.Sequence)
		fa.Name = append(fa.Name, "/1"...)
		if !bytes.Equal(fa.Sequence, seqBefore) {
			return fmt.Errorf("record %d: appending to the Name of a record the reader yielded changed its Sequence from %s to %s (the fields share storage)", i, gen.Abbrev(seqBefore), gen.Abbrev(fa.Sequence))
		}
		for j := range fa.Name {
			fa.Name[j] ^= 0x5a
		}
		for j := range fa.Sequence {
			fa.Sequence[j] ^= 0x5a
		}
		fa.Name = append(fa.Name, "scribble"...)
		fa.Sequence = append(fa.Sequence, "scribble"...)
		i++
	}
	if i != len(c.Recs) {
		return fmt.Errorf("second pass yields %d records, want %d", i, len(c.Recs))
	}
	return nil
}

// fastaShape checks the written form: '>'+name line, then lines of 1..80 bytes that
// concatenate to the sequence, LF-terminated.
func fastaShape(text, name, seq []byte) error {
	if len(text) == 0 || text[len(text)-1] != '\n' {
		return fmt.Errorf("written text does not end with LF: %s", gen.Abbrev(text))
	}
	lines := bytes.Split(text[:len(text)-1], []byte("\n"))
	if len(lines[0]) == 0 || lines[0][0] != '>' || !bytes.Equal(lines[0][1:], name) {
		return fmt.Errorf("first line %s is not '>'+name (%s)", gen.Abbrev(lines[0]), gen.Abbrev(name))
	}
	var cat []byte
	for i, l := range lines[1:] {
		if len(l) < 1 || len(l) > 80 {
			return fmt.Errorf("sequence line %d has %d bytes, want 1..80", i, len(l))
		}
		cat = append(cat, l...)
	}
	if !bytes.Equal(cat, seq) {
		return fmt.Errorf("sequence lines concatenate to %s (len %d), want the sequence (len %d)", gen.Abbrev(cat), len(cat), len(seq))
	}
	return nil
}

func seqOfLen(n int) []byte {
	const alpha = "ACGTNacgtn*-"
	s := make([]byte, n)
	for i := range s {
		s[i] = alpha[(i*7+i/80)%len(alpha)]
	}
	return s
}

func exhaustiveC01(thorough bool, emit func(C01Case) bool) {
	names := [][]byte{nil, []byte("x"), []byte(">a b\t@")}
	maxLen := 330
	if thorough {
		maxLen = 1000
	}
	// Every single length x names, canonical.
	for n := 0; n <= maxLen; n++ {
		for _, name := range names {
			if !emit(C01Case{Recs: []FastaRec{{Name: name, Seq: gen.Lit(seqOfLen(n))}}}) {
				return
			}
		}
	}
	// thousands of small records, all different (the caller keeps every record), and a
	// chromosome-sized record followed by a small one
	{
		var many []FastaRec
		for i := 0; i < 3000; i++ {
			many = append(many, FastaRec{Name: gen.B(fmt.Sprintf("read%05d/1 len=%d", i, 1+i%97)), Seq: gen.Lit(realDNA(1+i%97, i, true, true))})
		}
		if !emit(C01Case{Recs: many}) {
			return
		}
		big := []FastaRec{{Name: gen.B("chrM"), Seq: gen.Lit(realDNA(70001, 1, true, true))}, {Name: gen.B("chrUn_gl000220"), Seq: gen.Lit(realDNA(59, 2, true, true))},
			{Name: gen.B("gi|1| a >gi|2| b"), Seq: gen.Lit(realDNA(131073, 3, true, true))}, {Name: gen.B("last"), Seq: gen.Lit([]byte("ACGT"))}}
		if !emit(C01Case{Recs: big}) || !emit(C01Case{Recs: big, Layout: &FastaLayout{Widths: []int{60}, Blanks: []int{0, 1}, CRLF: true}}) {
			return
		}
	}
	// Very long names (beyond bufio's 4096-byte buffer and beyond 64 KiB).
	for _, n := range []int{4094, 4095, 4096, 4097, 8192, 65536, 70000, 1<<21 + 3} {
		name := bytes.Repeat([]byte("n>m "), n/4+1)[:n]
		recs := []FastaRec{{Name: name, Seq: gen.Lit(seqOfLen(81))}, {Name: gen.B("after"), Seq: gen.Lit(seqOfLen(5))}}
		if !emit(C01Case{Recs: recs}) || !emit(C01Case{Recs: recs, Layout: &FastaLayout{Widths: []int{7}, Blanks: []int{0}, CRLF: true}}) {
			return
		}
	}
	// multi-byte tokens at the start and inside of names and sequences, first and later records
	// a delimiter next to every other byte, inside and across machine words of a name
	if !bytePairFields(">;|@+ ", "\r\n", func(v gen.B) bool {
		return emit(C01Case{Recs: []FastaRec{{Name: v, Seq: gen.Lit([]byte("ACGT"))}, {Name: gen.B("second"), Seq: gen.Lit([]byte("GG"))}}})
	}) {
		return
	}
	// twin records: names / sequences of equal length that differ in one byte, in one stream
	if !twinFields(func(a, b gen.B) bool {
		return emit(C01Case{Recs: []FastaRec{{Name: a, Seq: gen.Lit(a)}, {Name: b, Seq: gen.Lit(a)}, {Name: a, Seq: gen.Lit(b)}, {Name: b, Seq: gen.Lit(b)}, {Name: a, Seq: gen.Lit(a)}}})
	}) {
		return
	}
	for _, tok := range gen.HostileTokens {
		for pos := 0; pos < 3; pos++ {
			val := append(append(gen.B{}, tok...), 'x')
			if pos == 1 {
				val = append(append(gen.B{'x'}, tok...), 'y')
			}
			if pos == 2 {
				val = append(gen.B{}, tok...) // the token is the whole field
			}
			if bytes.ContainsAny(val, "\r\n") {
				continue
			}
			recs := []FastaRec{{Name: val, Seq: gen.Lit(append(bytes.Clone(val), seqOfLen(90)...))}, {Name: gen.B("second"), Seq: gen.Lit(val)}, {Name: val}}
			if !emit(C01Case{Recs: recs}) || !emit(C01Case{Recs: recs, Layout: &FastaLayout{Widths: []int{3}, Blanks: []int{0, 1}, CRLF: true}}) {
				return
			}
		}
	}
	// All pairs of boundary lengths.
	bl := []int{0, 1, 79, 80, 81, 159, 160, 161}
	for _, a := range bl {
		for _, b := range bl {
			for _, name := range names[:2] {
				recs := []FastaRec{{Name: name, Seq: gen.Lit(seqOfLen(a))}, {Name: []byte("n2"), Seq: gen.Lit(seqOfLen(b))}}
				if !emit(C01Case{Recs: recs}) {
					return
				}
			}
		}
	}
	// Every composition of an 8-byte sequence into lines x CRLF x final newline x blank lines,
	// for a few fixed record lists.
	lists := [][]FastaRec{
		{{Name: gen.B("a"), Seq: gen.Lit([]byte("ACGTNNAC"))}},
		{{Name: nil, Seq: gen.Lit([]byte("ACGTNNAC"))}},
		{{Name: gen.B("a"), Seq: gen.Lit([]byte("ACGTNNAC"))}, {Name: gen.B("b"), Seq: gen.Lit([]byte("TTTTGGGG"))}},
		{{Name: gen.B("e"), Seq: gen.Lit(nil)}, {Name: gen.B("b c"), Seq: gen.Lit([]byte("@+*-  ;#"))}},
		{{Name: gen.B(">"), Seq: gen.Lit([]byte("AAAAAAAA"))}, {Name: nil, Seq: gen.Lit(nil)}, {Name: gen.B("z"), Seq: gen.Lit([]byte("CCCCCCCC"))}},
	}
	for _, recs := range lists {
		for mask := 0; mask < 128; mask++ {
			var widths []int
			w := 1
			for i := 0; i < 7; i++ {
				if mask&(1<<i) != 0 {
					widths = append(widths, w)
					w = 1
				} else {
					w++
				}
			}
			widths = append(widths, w)
			for _, blanks := range [][]int{{0}, {1}, {0, 2}} {
				for flags := 0; flags < 4; flags++ {
					l := &FastaLayout{Widths: widths, Blanks: blanks, CRLF: flags&1 != 0, NoFinalNL: flags&2 != 0}
					if !emit(C01Case{Recs: recs, Layout: l}) {
						return
					}
				}
			}
		}
	}
}

func propC01() Prop[C01Case] {
	return Prop[C01Case]{ID: "C01", Gen: genC01, Exhaustive: exhaustiveC01, Check: checkC01}
}

func TestC01(t *testing.T) { Run(t, propC01()) }

func FuzzGenC01(f *testing.F) { RunFuzz(f, propC01()) }

func TestRaceC01(t *testing.T) { RunConcurrent(t, propC01(), 4) }
