package props

// Format-independent view of the five stream decoders, used by C06, C07, C11 and C18.
// Every codec calls the library's iterator function directly with a callback, so that the
// callback's return value reaches the library unfiltered.

import (
	"bytes"
	"compress/gzip"
	"fmt"
	"io"
	"iter"
	"math"
	"os"
	"path/filepath"
	"reflect"
	"sort"
	"strconv"
	"strings"
	"sync"
	"verif/harness/internal/fault"

	"github.com/fluhus/biostuff/formats/bed"
	"github.com/fluhus/biostuff/formats/fasta"
	"github.com/fluhus/biostuff/formats/fastq"
	"github.com/fluhus/biostuff/formats/newick"
	"github.com/fluhus/biostuff/formats/sam"
	"pgregory.net/rapid"
	"verif/harness/internal/gen"
)

// Item is one yielded (record, error) pair in canonical form.
type Item struct {
	Rec string // canonical representation of the record at the time it was yielded ("" for an error item)
	Err error
	Raw any // the record itself
	// WithErr: for an error item that also carries a record (non-nil), its canonical form
	WithErr string
	canon   func() string // recomputes the canonical representation from Raw
}

func (it Item) String() string {
	if it.Err != nil {
		return "ERROR(" + it.Err.Error() + ")"
	}
	if len(it.Rec) > 200 {
		return it.Rec[:200] + "…"
	}
	return it.Rec
}

// key is what delivery-independence compares: the record, or just "an error".
func (it Item) key() string {
	if it.Err != nil {
		return "\x00ERROR"
	}
	return it.Rec
}

type Codec struct {
	Name   string
	Reader func(r io.Reader, cb func(Item) bool)
	File   func(path string, cb func(Item) bool)
	// FileSeq obtains the iterator value from File(path) ONCE and returns a runner that ranges
	// over that same value every time it is called.
	FileSeq func(path string) func(cb func(Item) bool)
	// ErrorIsLast: the statement says an error item is always the last item.
	ErrorIsLast bool
}

func canonFasta(f *fasta.Fasta) string {
	if f == nil {
		return "<nil>"
	}
	return "fasta|" + strconv.Quote(string(f.Name)) + "|" + strconv.Quote(string(f.Sequence))
}

func canonFastq(f *fastq.Fastq) string {
	if f == nil {
		return "<nil>"
	}
	return "fastq|" + strconv.Quote(string(f.Name)) + "|" + strconv.Quote(string(f.Sequence)) + "|" + strconv.Quote(string(f.Quals))
}

func canonTagValue(v any) string {
	switch x := v.(type) {
	case byte:
		return "A:" + strconv.Itoa(int(x))
	case int:
		return "i:" + strconv.Itoa(x)
	case float64:
		if math.IsNaN(x) {
			return "f:NaN"
		}
		if x == 0 {
			return "f:0"
		}
		return "f:" + strconv.FormatFloat(x, 'g', -1, 64)
	case string:
		return "Z:" + strconv.Quote(x)
	case []byte:
		return "H:" + fmt.Sprintf("%x", x)
	}
	return fmt.Sprintf("?:%T:%v", v, v)
}

func canonSAM(s *sam.SAM) string {
	if s == nil {
		return "<nil>"
	}
	var b strings.Builder
	fmt.Fprintf(&b, "sam|%q|%d|%q|%d|%d|%q|%q|%d|%d|%q|%q", s.Qname, s.Flag, s.Rname, s.Pos, s.Mapq, s.Cigar, s.Rnext, s.Pnext, s.Tlen, s.Seq, s.Qual)
	var names []string
	for k := range s.Tags {
		names = append(names, k)
	}
	sort.Strings(names)
	for _, k := range names {
		fmt.Fprintf(&b, "|%q=%s", k, canonTagValue(s.Tags[k]))
	}
	return b.String()
}

func canonBED(x *bed.BED) string {
	if x == nil {
		return "<nil>"
	}
	return fmt.Sprintf("bed|%d|%q|%d|%d|%q|%d|%q|%d|%d|%v|%d|%v|%v", x.N, x.Chrom, x.ChromStart, x.ChromEnd, x.Name, x.Score, x.Strand,
		x.ThickStart, x.ThickEnd, x.ItemRGB, x.BlockCount, append([]int{}, x.BlockSizes...), append([]int{}, x.BlockStarts...))
}

// canonTree serialises a tree iteratively (pre-order with child counts).
func canonTree(n *newick.Node) string {
	if n == nil {
		return "<nil>"
	}
	var b strings.Builder
	b.WriteString("tree")
	stack := []*newick.Node{n}
	for len(stack) > 0 {
		x := stack[len(stack)-1]
		stack = stack[:len(stack)-1]
		d := "0"
		if math.IsNaN(x.Distance) {
			d = "NaN"
		} else if x.Distance != 0 {
			d = strconv.FormatFloat(x.Distance, 'g', -1, 64)
		}
		fmt.Fprintf(&b, "|%q:%s/%d", x.Name, d, len(x.Children))
		for i := len(x.Children) - 1; i >= 0; i-- {
			stack = append(stack, x.Children[i])
		}
	}
	return b.String()
}

var codecs = map[string]*Codec{
	"fasta": {Name: "fasta", ErrorIsLast: true,
		Reader: func(r io.Reader, cb func(Item) bool) {
			fasta.Reader(r)(func(f *fasta.Fasta, err error) bool {
				return cb(mkItem(func() string { return canonFasta(f) }, err, f))
			})
		},
		File: func(p string, cb func(Item) bool) {
			fasta.File(p)(func(f *fasta.Fasta, err error) bool {
				return cb(mkItem(func() string { return canonFasta(f) }, err, f))
			})
		},
		FileSeq: func(p string) func(cb func(Item) bool) {
			it := fasta.File(p)
			return func(cb func(Item) bool) {
				it(func(v *fasta.Fasta, err error) bool {
					return cb(mkItem(func() string { return canonFasta(v) }, err, v))
				})
			}
		},
	},
	"fastq": {Name: "fastq", ErrorIsLast: true,
		Reader: func(r io.Reader, cb func(Item) bool) {
			fastq.Reader(r)(func(f *fastq.Fastq, err error) bool {
				return cb(mkItem(func() string { return canonFastq(f) }, err, f))
			})
		},
		File: func(p string, cb func(Item) bool) {
			fastq.File(p)(func(f *fastq.Fastq, err error) bool {
				return cb(mkItem(func() string { return canonFastq(f) }, err, f))
			})
		},
		FileSeq: func(p string) func(cb func(Item) bool) {
			it := fastq.File(p)
			return func(cb func(Item) bool) {
				it(func(v *fastq.Fastq, err error) bool {
					return cb(mkItem(func() string { return canonFastq(v) }, err, v))
				})
			}
		},
	},
	"sam": {Name: "sam",
		Reader: func(r io.Reader, cb func(Item) bool) {
			sam.Reader(r)(func(s *sam.SAM, err error) bool { return cb(mkItem(func() string { return canonSAM(s) }, err, s)) })
		},
		File: func(p string, cb func(Item) bool) {
			sam.File(p)(func(s *sam.SAM, err error) bool { return cb(mkItem(func() string { return canonSAM(s) }, err, s)) })
		},
		FileSeq: func(p string) func(cb func(Item) bool) {
			it := sam.File(p)
			return func(cb func(Item) bool) {
				it(func(v *sam.SAM, err error) bool { return cb(mkItem(func() string { return canonSAM(v) }, err, v)) })
			}
		},
	},
	"samh": {Name: "samh",
		Reader: func(r io.Reader, cb func(Item) bool) {
			sam.ReaderHeader(r)(func(sh sam.SAMOrHeader, err error) bool {
				return cb(mkItem(func() string { return canonSamH(sh) }, err, sh))
			})
		},
		File: func(p string, cb func(Item) bool) {
			sam.FileHeader(p)(func(sh sam.SAMOrHeader, err error) bool {
				return cb(mkItem(func() string { return canonSamH(sh) }, err, sh))
			})
		},
		FileSeq: func(p string) func(cb func(Item) bool) {
			it := sam.FileHeader(p)
			return func(cb func(Item) bool) {
				it(func(v sam.SAMOrHeader, err error) bool {
					return cb(mkItem(func() string { return canonSamH(v) }, err, v))
				})
			}
		},
	},
	"bed": {Name: "bed", ErrorIsLast: true,
		Reader: func(r io.Reader, cb func(Item) bool) {
			bed.Reader(r)(func(b *bed.BED, err error) bool { return cb(mkItem(func() string { return canonBED(b) }, err, b)) })
		},
		File: func(p string, cb func(Item) bool) {
			bed.File(p)(func(b *bed.BED, err error) bool { return cb(mkItem(func() string { return canonBED(b) }, err, b)) })
		},
		FileSeq: func(p string) func(cb func(Item) bool) {
			it := bed.File(p)
			return func(cb func(Item) bool) {
				it(func(v *bed.BED, err error) bool { return cb(mkItem(func() string { return canonBED(v) }, err, v)) })
			}
		},
	},
	"newick": {Name: "newick", ErrorIsLast: true,
		Reader: func(r io.Reader, cb func(Item) bool) {
			newick.Reader(r)(func(n *newick.Node, err error) bool { return cb(mkItem(func() string { return canonTree(n) }, err, n)) })
		},
		File: func(p string, cb func(Item) bool) {
			newick.File(p)(func(n *newick.Node, err error) bool { return cb(mkItem(func() string { return canonTree(n) }, err, n)) })
		},
		FileSeq: func(p string) func(cb func(Item) bool) {
			it := newick.File(p)
			return func(cb func(Item) bool) {
				it(func(v *newick.Node, err error) bool { return cb(mkItem(func() string { return canonTree(v) }, err, v)) })
			}
		},
	},
}

var codecNames = []string{"fasta", "fastq", "sam", "samh", "bed", "newick"}

func canonSamH(sh sam.SAMOrHeader) string {
	switch {
	case sh.H != nil && sh.S != nil:
		return "samh|BOTH"
	case sh.H != nil:
		return "samh|H|" + strconv.Quote(*sh.H)
	case sh.S != nil:
		return "samh|S|" + canonSAM(sh.S)
	}
	return "samh|NEITHER"
}

func mkItem(canon func() string, err error, raw any) Item {
	if err != nil {
		it := Item{Err: err}
		carries := false
		switch v := raw.(type) {
		case sam.SAMOrHeader:
			carries = v.H != nil || v.S != nil
		default:
			rv := reflect.ValueOf(raw)
			carries = rv.IsValid() && rv.Kind() == reflect.Pointer && !rv.IsNil()
		}
		if carries {
			if p := catch(func() { it.WithErr = canon() }); p != nil {
				it.WithErr = fmt.Sprintf("<record whose rendering panics: %v>", p)
			}
		}
		return it
	}
	return Item{Rec: canon(), Raw: raw, canon: canon}
}

// collect runs an iterator to completion (or to the item cap) and recovers panics.
//
// After the run every yielded record is canonicalised again: a record that changed after it
// was handed to the consumer (e.g. because it aliases a reader's internal buffer) is reported
// through the panicked result with a descriptive message.
func collect(run func(cb func(Item) bool), limit int) (items []Item, over bool, panicked any) {
	panicked = catch(func() {
		run(func(it Item) bool {
			items = append(items, it)
			if len(items) >= limit {
				over = true
				return false
			}
			return true
		})
	})
	if panicked == nil {
		for i, it := range items {
			if it.Err == nil && it.canon != nil {
				if now := it.canon(); now != it.Rec {
					return items, over, fmt.Sprintf("(no panic) record item %d changed after it was yielded: was %s, is now %s", i, it, Item{Rec: now})
				}
			}
		}
	}
	return
}

// lockstep decodes several streams with one reader each, advancing the readers in turn the
// way paired files are read: reader i joins in round i, then every live reader delivers one
// item per round. What a reader yields for its bytes must not depend on other readers being
// in use at the same time, so each must yield exactly what it yields when it runs alone; the
// records are canonicalised again after all readers have finished (as in collect).
func lockstep(codec *Codec, readers []io.Reader, limit int) (out [][]Item, panicked any) {
	out = make([][]Item, len(readers))
	panicked = catch(func() {
		next := make([]func() (Item, bool), len(readers))
		stop := make([]func(), len(readers))
		for i, r := range readers {
			r := r
			next[i], stop[i] = iter.Pull(func(yield func(Item) bool) { codec.Reader(r, yield) })
		}
		defer func() {
			for _, st := range stop {
				st()
			}
		}()
		live := len(readers)
		done := make([]bool, len(readers))
		for round := 0; live > 0; round++ {
			for i := range readers {
				if done[i] || round < i {
					continue
				}
				it, ok := next[i]()
				if !ok || len(out[i]) >= limit {
					done[i] = true
					live--
					continue
				}
				out[i] = append(out[i], it)
			}
		}
	})
	if panicked == nil {
		for r := range out {
			for i, it := range out[r] {
				if it.Err == nil && it.canon != nil {
					if now := it.canon(); now != it.Rec {
						return out, fmt.Sprintf("(no panic) record item %d of reader %d changed after it was yielded: was %s, is now %s", i, r, it, Item{Rec: now})
					}
				}
			}
		}
	}
	return
}

func itemKeys(items []Item) []string {
	out := make([]string, len(items))
	for i, it := range items {
		out[i] = it.key()
	}
	return out
}

func describeItems(items []Item) string {
	var parts []string
	for i, it := range items {
		if i >= 6 {
			parts = append(parts, fmt.Sprintf("…(%d items)", len(items)))
			break
		}
		parts = append(parts, it.String())
	}
	return "[" + strings.Join(parts, ", ") + "]"
}

func sameKeys(a, b []Item) bool {
	if len(a) != len(b) {
		return false
	}
	for i := range a {
		if a[i].key() != b[i].key() {
			return false
		}
	}
	return true
}

// sameItems: the same records and the same errors (compared by their messages: what an error
// says about the content must not depend on how the bytes were delivered either).
func sameItems(a, b []Item) bool {
	if !sameKeys(a, b) {
		return false
	}
	for i := range a {
		if a[i].Err != nil && b[i].Err != nil && a[i].Err.Error() != b[i].Err.Error() {
			return false
		}
	}
	return true
}

// ---- temp files -------------------------------------------------------------------------

var tmpOnce sync.Once
var tmpDir string

// tmpMu guards tmpSeq and tmpFiles (checks run on several goroutines in the concurrent stage).
var tmpMu sync.Mutex
var tmpSeq int
var tmpFiles []string

// keepTempUntilBatchEnd: in the concurrent stage cleanupTemp does nothing (one check must not
// remove another check's files); the stage removes the files after every batch.
var keepTempUntilBatchEnd bool

func scratchDir() string {
	tmpOnce.Do(func() {
		base := os.Getenv("VERIF_OUT")
		if base == "" {
			base = os.TempDir()
		}
		d, err := os.MkdirTemp(base, "files-")
		if err != nil {
			panic(err)
		}
		tmpDir = d
	})
	return tmpDir
}

// nextTmp returns a fresh sequence number for a temp file name.
func nextTmp() int {
	tmpMu.Lock()
	defer tmpMu.Unlock()
	tmpSeq++
	return tmpSeq
}

// trackTemp registers paths for removal by cleanupTemp.
func trackTemp(paths ...string) {
	tmpMu.Lock()
	defer tmpMu.Unlock()
	tmpFiles = append(tmpFiles, paths...)
}

// writeTemp writes data to a fresh file with the given suffix (".gz": gzip-compressed).
//
// members > 1 writes a gzip file of that many concatenated members (as `cat a.gz b.gz` or bgzip
// produce); such a file is a valid gzip file with the concatenated content.
//
// The file name contains the characters that mean something to a shell or to filepath.Glob
// ('[', ']', '*', '?', a space): a path is a path, File must open exactly this file. Two decoy
// files that the name would match if it were taken for a pattern are written next to it - the
// first malformed for every format, the second a valid small input - so that a File that
// expands patterns reads something else.
func writeTemp(data []byte, suffix string, members ...int) string {
	seqNo := nextTmp()
	p := filepath.Join(scratchDir(), fmt.Sprintf("f%d_[%d]*? x%s", seqNo, seqNo%10, suffix))
	if !strings.HasSuffix(suffix, ".gz") {
		format := strings.TrimPrefix(suffix, ".")
		if in, ok := smallInputs[format]; ok {
			d1 := filepath.Join(scratchDir(), fmt.Sprintf("f%d_%d-decoy-a x%s", seqNo, seqNo%10, suffix))
			d2 := filepath.Join(scratchDir(), fmt.Sprintf("f%d_%d-decoy-b x%s", seqNo, seqNo%10, suffix))
			os.WriteFile(d1, []byte("\x00(:'@+>\t\x00\n"), 0o644)
			os.WriteFile(d2, []byte(in[0]), 0o644)
			trackTemp(d1, d2)
		}
	}
	if strings.HasSuffix(suffix, ".gz") {
		n := 1
		if len(members) > 0 && members[0] > 1 {
			n = members[0]
		}
		var buf bytes.Buffer
		for i := 0; i < n; i++ {
			part := data[len(data)*i/n : len(data)*(i+1)/n]
			zw := gzip.NewWriter(&buf)
			zw.Write(part)
			zw.Close()
		}
		data = buf.Bytes()
	}
	if err := os.WriteFile(p, data, 0o644); err != nil {
		panic(err)
	}
	trackTemp(p)
	return p
}

// cleanupTemp removes the files written by writeTemp since the last call.
func cleanupTemp() {
	if keepTempUntilBatchEnd {
		return
	}
	removeTemp()
}

func removeTemp() {
	tmpMu.Lock()
	defer tmpMu.Unlock()
	for i := len(tmpFiles) - 1; i >= 0; i-- {
		os.Remove(tmpFiles[i])
	}
	tmpFiles = tmpFiles[:0]
}

// ---- well-formed text generators ---------------------------------------------------------

// StreamText is a text as lines plus rendering options. The lines are content; the
// terminator is rendering (content bytes are never rewritten).
type StreamText struct {
	Lines []gen.B `json:"lines,omitempty"`
	Reps  int     `json:"reps,omitempty"` // the block of lines is repeated 1+Reps times
	Raw   gen.B   `json:"raw,omitempty"`  // arbitrary bytes, used when Lines is empty
}

func (s StreamText) wellFormed() bool { return len(s.Lines) > 0 }

func (s StreamText) longestLine() int {
	n := 0
	for _, l := range s.Lines {
		n = max(n, len(l))
	}
	return n
}

func (s StreamText) Render(crlf bool) []byte {
	if !s.wellFormed() {
		return s.Raw
	}
	term := "\n"
	if crlf {
		term = "\r\n"
	}
	var block bytes.Buffer
	for _, l := range s.Lines {
		block.Write(l)
		block.WriteString(term)
	}
	return bytes.Repeat(block.Bytes(), 1+max(s.Reps, 0))
}

var plainWord = gen.Word(1, 8)

func plainField(t *rapid.T, label string) string { return string(plainWord.Draw(t, label)) }

// genWellFormedLines draws the lines of a well-formed text of the given format over an
// uncontroversial printable alphabet (so that C06/C07/C18 do not depend on quoting rules).
func genWellFormedLines(t *rapid.T, format string, nrecs int) []gen.B {
	var lines []gen.B
	add := func(s string) { lines = append(lines, gen.B(s)) }
	// About one text in twelve has one very long line whose length straddles bufio's 4096-byte
	// buffer (so that, in the CRLF rendering, CR and LF can fall into different fills).
	longLen := 0
	if rapid.IntRange(0, 23).Draw(t, "longLine") == 11 {
		longLen = rapid.SampledFrom([]int{4090, 4093, 4094, 4095, 4096, 4097, 4098, 4099, 8191, 8192, 8193, 12289}).Draw(t, "longLen")
	}
	dna := func(label string, lo, hi int) string {
		if longLen > 0 && hi >= 40 {
			n := longLen
			longLen = 0
			unit := string(rapid.SliceOfN(rapid.SampledFrom([]byte("ACGTN")), 1, 9).Draw(t, label+"unit"))
			return strings.Repeat(unit, n/len(unit)+1)[:n]
		}
		return string(rapid.SliceOfN(rapid.SampledFrom([]byte("ACGTN")), lo, hi).Draw(t, label))
	}
	switch format {
	case "fasta":
		for i := 0; i < nrecs; i++ {
			add(">" + plainField(t, "name") + " desc")
			nl := rapid.IntRange(0, 3).Draw(t, "nlines")
			for j := 0; j < nl; j++ {
				add(dna("seq", 1, 70))
			}
		}
	case "fastq":
		for i := 0; i < nrecs; i++ {
			s := dna("seq", 0, 60)
			add("@" + plainField(t, "name"))
			add(s)
			add("+")
			add(string(rapid.SliceOfN(rapid.SampledFrom([]byte("!#5?IJ~")), len(s), len(s)).Draw(t, "quals")))
		}
	case "sam", "samh":
		nh := rapid.IntRange(0, 2).Draw(t, "nheaders")
		for i := 0; i < nh; i++ {
			add("@" + plainField(t, "hd") + "\tVN:" + plainField(t, "hv"))
		}
		for i := 0; i < nrecs; i++ {
			s := dna("seq", 1, 40)
			line := fmt.Sprintf("%s\t%d\t%s\t%d\t%d\t%dM\t=\t%d\t%d\t%s\t%s", plainField(t, "qname"), rapid.IntRange(0, 4095).Draw(t, "flag"),
				plainField(t, "rname"), rapid.IntRange(0, 100000).Draw(t, "pos"), rapid.IntRange(0, 255).Draw(t, "mapq"), len(s),
				rapid.IntRange(0, 100000).Draw(t, "pnext"), rapid.IntRange(-500, 500).Draw(t, "tlen"), s, strings.Repeat("I", len(s)))
			if rapid.Bool().Draw(t, "tags") {
				line += fmt.Sprintf("\tAS:i:%d\tBC:Z:%s\tXF:f:%d.5\tXH:H:0a1B", rapid.IntRange(-1000, 100000).Draw(t, "as"), plainField(t, "bc"), rapid.IntRange(0, 99).Draw(t, "xf"))
			}
			add(line)
		}
	case "bed":
		n := rapid.IntRange(3, 12).Draw(t, "n")
		if rapid.Bool().Draw(t, "comment") {
			add("# a comment line")
		}
		for i := 0; i < nrecs; i++ {
			start := rapid.IntRange(0, 1000000).Draw(t, "start")
			chrom := plainField(t, "chrom")
			if longLen > 0 {
				chrom = strings.Repeat("c", longLen)
				longLen = 0
			}
			fields := []string{chrom, strconv.Itoa(start), strconv.Itoa(start + rapid.IntRange(1, 100000).Draw(t, "len")),
				plainField(t, "name"), strconv.Itoa(rapid.IntRange(0, 1000).Draw(t, "score")), rapid.SampledFrom([]string{"+", "-", "."}).Draw(t, "strand"),
				strconv.Itoa(start + 1), strconv.Itoa(start + 2), "255,0,128", "2", "10,20", "0,30"}
			add(strings.Join(fields[:n], "\t"))
		}
		if n == 10 || n == 11 {
			// block count without both lists is inconsistent; use 0 blocks
			for i := range lines {
				if lines[i][0] != '#' {
					f := strings.Split(string(lines[i]), "\t")
					f[9] = "0"
					if n == 11 {
						f[10] = ""
					}
					lines[i] = gen.B(strings.Join(f, "\t"))
				}
			}
		}
	case "newick":
		for i := 0; i < nrecs; i++ {
			ts := genTreeShape(t, 12)
			nn := rapid.IntRange(0, 4).Draw(t, "nnames")
			for j := 0; j < nn; j++ {
				ts.Names = append(ts.Names, plainWord.Draw(t, "nm"))
			}
			if longLen > 0 {
				ts.Names = append(ts.Names, gen.B(strings.Repeat("n", longLen)))
				longLen = 0
			}
			if rapid.Bool().Draw(t, "dists") {
				ts.Dists = []gen.F{gen.F(float64(rapid.IntRange(0, 40).Draw(t, "d")) / 4), 0, 1.5}
			}
			text := renderNewick(ts)
			if rapid.Bool().Draw(t, "multiline") {
				// Newick allows line breaks between any two tokens: also right after a label or
				// a branch length.
				start := 0
				for k := 0; k < len(text); k++ {
					punct := strings.IndexByte("(),:;", text[k]) >= 0
					nextPunct := k+1 < len(text) && strings.IndexByte("(),:;", text[k+1]) >= 0
					if k+1 < len(text) && (punct || nextPunct) && rapid.IntRange(0, 3).Draw(t, "break") == 0 {
						add(text[start : k+1])
						start = k + 1
					}
				}
				add(text[start:])
			} else {
				add(text)
			}
		}
	}
	// SAM, BED, FASTA and Newick readers tolerate empty lines; they are part of what LF/CRLF
	// independence has to cover (an empty CRLF line is "\r\n").
	if format != "fastq" && len(lines) > 0 && rapid.IntRange(0, 3).Draw(t, "blankLines") == 0 {
		nb := rapid.IntRange(1, 3).Draw(t, "nblank")
		for i := 0; i < nb; i++ {
			pos := rapid.IntRange(1, len(lines)).Draw(t, "blankPos")
			lines = append(lines[:pos:pos], append([]gen.B{{}}, lines[pos:]...)...)
		}
	}
	return lines
}

// renderNewick writes a tree spec with plain names in Newick syntax (independent of the library).
func renderNewick(ts gen.TreeSpec) string {
	pa := ts.ParentArray()
	children := make([][]int, len(pa))
	for i := 1; i < len(pa); i++ {
		children[pa[i]] = append(children[pa[i]], i)
	}
	var b strings.Builder
	var rec func(i int)
	rec = func(i int) {
		if len(children[i]) > 0 {
			b.WriteByte('(')
			for k, c := range children[i] {
				if k > 0 {
					b.WriteByte(',')
				}
				rec(c)
			}
			b.WriteByte(')')
		}
		b.Write(ts.NameOf(i))
		if d := ts.DistOf(i); d != 0 {
			b.WriteByte(':')
			b.WriteString(strconv.FormatFloat(d, 'g', -1, 64))
		}
	}
	rec(0)
	b.WriteByte(';')
	return b.String()
}

// plainWriter is an io.Writer and nothing else (a bytes.Buffer also offers WriteByte,
// WriteString and ReadFrom, which a writer may treat specially).
type plainWriter struct{ b *bytes.Buffer }

func (p plainWriter) Write(data []byte) (int, error) { return p.b.Write(data) }

// writePlain writes through a plainWriter and returns the bytes.
func writePlain(write func(io.Writer) error) ([]byte, error) {
	var b bytes.Buffer
	var err error
	if p := catch(func() { err = write(plainWriter{&b}) }); p != nil {
		return nil, fmt.Errorf("Write to a plain io.Writer panicked: %v", p)
	}
	return b.Bytes(), err
}

// samePlain verifies that Write produces the same bytes on a plain io.Writer as on a bytes.Buffer.
func samePlain(write func(io.Writer) error, want []byte) error {
	got, err := writePlain(write)
	if err != nil {
		return fmt.Errorf("Write to a plain io.Writer failed: %v", err)
	}
	if !bytes.Equal(got, want) {
		return fmt.Errorf("Write to a plain io.Writer (no WriteByte/WriteString) produces %s, to a bytes.Buffer %s", gen.Abbrev(got), gen.Abbrev(want))
	}
	return nil
}

// writeAfterFailure: a Write whose destination failed half-way leaves nothing behind - the next
// Write of the record to a healthy destination produces the same bytes as before.
func writeAfterFailure(write func(io.Writer) error, want []byte) error {
	if len(want) == 0 {
		return nil
	}
	lw := &fault.LimitedWriter{Limit: len(want) / 2, Short: len(want)%2 == 1}
	catch(func() { write(lw) })
	var w bytes.Buffer
	var err error
	if p := catch(func() { err = write(&w) }); p != nil || err != nil {
		return fmt.Errorf("Write to a healthy buffer, after a Write whose destination failed after %d bytes: panic=%v err=%v", len(want)/2, p, err)
	}
	if !bytes.Equal(w.Bytes(), want) {
		return fmt.Errorf("after a Write whose destination failed after %d bytes, the next Write to a healthy buffer produces %s instead of %s", len(want)/2, gen.Abbrev(w.Bytes()), gen.Abbrev(want))
	}
	return nil
}

// marshalKeeper keeps the slices returned by MarshalText and later verifies that they were
// not overwritten by subsequent calls (a caller may marshal several records before using
// the texts).
type marshalKeeper struct {
	kept, copies [][]byte
	what         []string
}

func (k *marshalKeeper) keep(what string, mt []byte) {
	k.kept = append(k.kept, mt)
	k.copies = append(k.copies, bytes.Clone(mt))
	k.what = append(k.what, what)
}

func (k *marshalKeeper) verify() error {
	for i := range k.kept {
		if !bytes.Equal(k.kept[i], k.copies[i]) {
			return fmt.Errorf("the bytes returned by MarshalText for %s were overwritten by a later MarshalText call: %s, was %s",
				k.what[i], gen.Abbrev(k.kept[i]), gen.Abbrev(k.copies[i]))
		}
	}
	return nil
}

// arena lays byte fields out back to back in one backing array and hands out plain
// sub-slices of it, so that every field's spare capacity holds the live data of the fields
// that follow (records are often windows of one large buffer). A writer that appends to a
// field, or otherwise writes past its length, corrupts a neighbour; verify detects any change.
type arena struct {
	buf, orig []byte
	bounds    [][2]int
}

func newArena(fields ...[]byte) *arena {
	n := 0
	for _, f := range fields {
		n += len(f)
	}
	a := &arena{buf: make([]byte, 0, n+16)}
	for _, f := range fields {
		start := len(a.buf)
		a.buf = append(a.buf, f...)
		a.bounds = append(a.bounds, [2]int{start, len(a.buf)})
	}
	a.buf = append(a.buf, "0123456789abcdef"...) // live tail after the last field
	a.orig = bytes.Clone(a.buf)
	return a
}

// field returns the i-th field as a sub-slice whose capacity extends over the following fields.
// Empty fields are returned as nil for even i and as empty non-nil slices for odd i.
func (a *arena) field(i int) []byte {
	if a.bounds[i][0] == a.bounds[i][1] && i%2 == 0 {
		return nil
	}
	return a.buf[a.bounds[i][0]:a.bounds[i][1]]
}

func (a *arena) verify() error {
	if !bytes.Equal(a.buf, a.orig) {
		for i := range a.buf {
			if a.buf[i] != a.orig[i] {
				return fmt.Errorf("the writer modified the caller's memory: byte %d of the buffer holding the records' fields changed from %q to %q (fields are sub-slices of one buffer)", i, a.orig[i], a.buf[i])
			}
		}
	}
	return nil
}

// twinFields calls emit with pairs of field values of equal length that differ in exactly one
// byte - at the start, inside the first and the last eight bytes, in the middle, at the end -
// for lengths from 9 to 5000: chr1_unlocalized / chr2_unlocalized, two reads whose qualities
// differ at one position. (A reader that recognises a field by its length and a few probes
// hands out the wrong twin.)
func twinFields(emit func(a, b gen.B) bool) bool {
	for _, l := range []int{9, 16, 17, 32, 33, 64, 100, 300, 5000} {
		a := gen.B(bytes.Repeat([]byte("FGHIJKLMNOPQ"), l/12+1)[:l])
		seen := map[int]bool{}
		for _, pos := range []int{0, 3, l / 4, l/2 - 5, l / 2, l - 9, l - 1} {
			if pos < 0 || pos >= l || seen[pos] {
				continue
			}
			seen[pos] = true
			b := gen.B(bytes.Clone(a))
			b[pos] = 'A' + byte(pos%3)
			if !emit(a, b) {
				return false
			}
		}
	}
	return true
}

// bytePairFields calls emit with 16-byte field values in which two neighbouring bytes are a
// format delimiter and any other byte (both orders), once inside the first machine word and once
// across the boundary between the first and the second (an 8-bytes-at-a-time scanner sees a
// delimiter, its neighbour, and the carry between them).
func bytePairFields(delims string, exclude string, emit func(val gen.B) bool) bool {
	for _, d := range []byte(delims) {
		for b := 0; b < 256; b++ {
			if strings.IndexByte(exclude, byte(b)) >= 0 {
				continue
			}
			for _, pair := range [][2]byte{{d, byte(b)}, {byte(b), d}} {
				for _, off := range []int{3, 7} {
					val := gen.B("abcdefghijklmnop")
					val[off], val[off+1] = pair[0], pair[1]
					if !emit(val) {
						return false
					}
				}
			}
		}
	}
	return true
}
