package props

// Shared runner for all property checks.
//
// Every property is a Prop[C]: a rapid generator of a plain JSON-serialisable case C, an
// optional enumerator of a finite sub-space of cases, and a check function that runs the
// code under test against the oracle. The runner provides: replay of a saved case
// (bypassing rapid), replay of the committed regression corpus, the exhaustive stage,
// the rapid stage, panic recovery, replay-file writing, known-finding classification,
// evidence recording and a per-case watchdog.

import (
	"encoding/json"
	"fmt"
	"os"
	"path/filepath"
	"runtime/debug"
	"sort"
	"strconv"
	"strings"
	"sync"
	"testing"
	"time"

	"pgregory.net/rapid"
	"verif/harness/internal/rec"
)

// Obs is filled by a check function: non-triviality of the case and its class labels.
type Obs struct {
	NT      bool
	classes []string
	counts  map[string]int64
	beat    func()
}

// Beat tells the per-case watchdog that the case is making progress: a case that is an
// enumeration of many independent runs (every fault offset of an input) calls it after each run,
// so that the watchdog measures one run - which takes milliseconds - and not the whole
// enumeration, whose wall time depends on how busy the machine is.
func (o *Obs) Beat() {
	if o != nil && o.beat != nil {
		o.beat()
	}
}

// Class adds class labels.
func (o *Obs) Class(c ...string) { o.classes = append(o.classes, c...) }

// ClassIf adds a class label if cond holds.
func (o *Obs) ClassIf(cond bool, c string) {
	if cond {
		o.classes = append(o.classes, c)
	}
}

// Count adds to a named counter of the evidence.
func (o *Obs) Count(name string, n int) {
	if o.counts == nil {
		o.counts = map[string]int64{}
	}
	o.counts[name] += int64(n)
}

// Prop describes one property check.
type Prop[C any] struct {
	ID string
	// Gen draws a case. Every random choice must be a rapid draw.
	Gen func(t *rapid.T, thorough bool) C
	// Exhaustive enumerates a finite sub-space, calling emit for every case; emit
	// returns false when enumeration should stop (after a failure).
	Exhaustive func(thorough bool, emit func(C) bool)
	// Check runs the code under test against the oracle. A non-nil error is a violation.
	Check func(c C, o *Obs) error
	// Known classifies a failing case against the listed open findings: it returns the
	// finding id the failure belongs to, or "" when it is a new violation.
	Known func(c C, err error) string
	// Key returns a cheap distinctness key (default: canonical JSON of the case).
	Key func(c C) []byte
	// TerminationIsProperty makes a watchdog timeout a violation instead of inconclusive.
	TerminationIsProperty bool
	// Risky marks cases that may kill the process instead of failing (e.g. a stack overflow
	// is fatal in Go): such a case is saved and announced before it runs, so that the driver can
	// name it if the process dies.
	Risky func(c C) bool
	// MustTerminate marks cases for which the statement itself says that the call returns or
	// panics (e.g. "any other byte causes a panic"): a watchdog timeout on such a case is a
	// violation (the call hangs), not an inconclusive run.
	MustTerminate func(c C) bool
}

type environ struct {
	tier, stage      string
	seed             uint64
	shard            int
	out, replays     string
	corpus           string
	replayFile       string
	caseTimeout      time.Duration
	maxKnownPerStage int
}

func getenv() environ {
	e := environ{
		tier:    os.Getenv("VERIF_TIER"),
		stage:   os.Getenv("VERIF_STAGE"),
		out:     os.Getenv("VERIF_OUT"),
		replays: os.Getenv("VERIF_REPLAYS"),
		corpus:  os.Getenv("VERIF_CORPUS"),
	}
	if e.tier == "" {
		e.tier = "quick"
	}
	if e.stage == "" {
		e.stage = "all"
	}
	if e.out == "" {
		e.out = os.TempDir()
	}
	if e.replays == "" {
		e.replays = e.out
	}
	e.seed, _ = strconv.ParseUint(os.Getenv("VERIF_SEED"), 10, 64)
	e.shard, _ = strconv.Atoi(os.Getenv("VERIF_SHARD"))
	e.replayFile = os.Getenv("VERIF_REPLAY")
	secs, _ := strconv.Atoi(os.Getenv("VERIF_CASE_TIMEOUT"))
	if secs <= 0 {
		secs = 300
	}
	e.caseTimeout = time.Duration(secs) * time.Second
	return e
}

// runner state for one property in this process.
type runner[C any] struct {
	p   Prop[C]
	env environ
	rec *rec.Recorder
	t   *testing.T

	mu        sync.Mutex
	inflight  *C
	inflightT time.Time
	stage     string
	failSeq   int
}

// Run is the entry point used by every TestCxx function.
func Run[C any](t *testing.T, p Prop[C]) {
	env := getenv()
	r := &runner[C]{p: p, env: env, t: t}
	stageName := env.stage
	if env.replayFile != "" {
		stageName = "replay"
	}
	r.rec = rec.New(p.ID, stageName, env.shard)
	stop := r.watchdog()
	defer close(stop)
	defer func() {
		if err := r.rec.Dump(env.out); err != nil {
			t.Errorf("cannot write recorder dump: %v", err)
		}
	}()
	thorough := env.tier == "thorough"

	if env.replayFile != "" {
		r.stage = "replay"
		data, err := os.ReadFile(env.replayFile)
		if err != nil {
			t.Fatalf("replay: %v", err)
		}
		var c C
		if err := json.Unmarshal(data, &c); err != nil {
			t.Fatalf("replay: cannot decode %s: %v", env.replayFile, err)
		}
		if err := r.eval(c, true); err != nil {
			t.Errorf("replay of %s fails: %v", env.replayFile, err)
		} else {
			fmt.Printf("VERIF-REPLAY-OK property=%s file=%s\n", p.ID, env.replayFile)
		}
		return
	}

	want := func(s string) bool {
		return env.stage == "all" || env.stage == s || (env.stage == "pre" && s != "rapid")
	}

	if want("corpus") && env.corpus != "" {
		r.stage = "corpus"
		files, _ := filepath.Glob(filepath.Join(env.corpus, p.ID, "*.json"))
		sort.Strings(files)
		for _, f := range files {
			data, err := os.ReadFile(f)
			if err != nil {
				t.Fatalf("corpus: %v", err)
			}
			var c C
			if err := json.Unmarshal(data, &c); err != nil {
				t.Fatalf("corpus: cannot decode %s: %v", f, err)
			}
			r.rec.Count("corpus_cases", 1)
			if err := r.evalNamed(c, true, "corpus-"+strings.TrimSuffix(filepath.Base(f), ".json")); err != nil {
				t.Errorf("corpus case %s fails: %v", f, err)
			}
		}
	}

	if want("exhaustive") && p.Exhaustive != nil {
		r.stage = "exhaustive"
		failed := false
		p.Exhaustive(thorough, func(c C) bool {
			if err := r.eval(c, true); err != nil {
				if !failed {
					t.Errorf("exhaustive stage: %v", err)
				}
				failed = true
				return r.rec.Failures() < 5
			}
			return true
		})
	}

	if want("rapid") && p.Gen != nil {
		r.stage = "rapid"
		rapid.Check(t, func(rt *rapid.T) {
			c := p.Gen(rt, thorough)
			if err := r.eval(c, false); err != nil {
				rt.Fatalf("%v", err)
			}
		})
	}
}

// eval runs one case: check + panic recovery + recording + failure handling.
func (r *runner[C]) eval(c C, distinctFailFiles bool) error {
	return r.evalNamed(c, distinctFailFiles, "")
}

func (r *runner[C]) evalNamed(c C, distinctFailFiles bool, name string) error {
	r.mu.Lock()
	r.inflight = &c
	r.inflightT = time.Now()
	r.mu.Unlock()
	if r.p.Risky != nil && r.p.Risky(c) {
		path := filepath.Join(r.env.replays, fmt.Sprintf("%s-inflight-s%d.json", r.p.ID, r.env.shard))
		js, _ := json.MarshalIndent(c, "", " ")
		os.MkdirAll(r.env.replays, 0o755)
		os.WriteFile(path, js, 0o644)
		fmt.Printf("VERIF-INFLIGHT property=%s stage=%s replay=%s\n", r.p.ID, r.stage, path)
	}
	var o Obs
	o.beat = func() {
		r.mu.Lock()
		r.inflightT = time.Now()
		r.mu.Unlock()
	}
	err := r.safeCheck(c, &o)
	r.mu.Lock()
	r.inflight = nil
	r.mu.Unlock()
	return r.record(c, &o, err, distinctFailFiles, name)
}

// record files the outcome of one evaluated case: evidence, known-finding classification,
// replay file and failure line.
func (r *runner[C]) record(c C, op *Obs, err error, distinctFailFiles bool, name string) error {
	o := *op
	var key []byte
	if r.p.Key != nil {
		key = r.p.Key(c)
	} else {
		key, _ = json.Marshal(c)
	}
	o.classes = append(o.classes, "stage:"+r.stage)
	h := r.rec.Eval(key, o.NT, o.classes...)
	for k, n := range o.counts {
		r.rec.Count(k, n)
	}
	bucket := r.stage
	if o.NT {
		bucket += "/nontrivial"
	} else {
		bucket += "/trivial"
	}
	if r.rec.WantSample(bucket, h) {
		r.rec.Sample(bucket, h, readable(c))
	}
	if err == nil {
		return nil
	}
	if r.p.Known != nil {
		if id := r.p.Known(c, err); id != "" {
			r.rec.Known(id)
			return nil
		}
	}
	// A new violation: write the replay file.
	r.mu.Lock()
	r.failSeq++
	seq := r.failSeq
	r.mu.Unlock()
	fname := fmt.Sprintf("%s-%s-s%d", r.p.ID, r.stage, r.env.shard)
	if name != "" {
		fname = fmt.Sprintf("%s-%s", r.p.ID, name)
	} else if distinctFailFiles {
		fname += fmt.Sprintf("-%d", seq)
	}
	path := filepath.Join(r.env.replays, fname+".json")
	js, _ := json.MarshalIndent(c, "", " ")
	os.MkdirAll(r.env.replays, 0o755)
	if werr := os.WriteFile(path, js, 0o644); werr != nil {
		path = "(cannot write replay: " + werr.Error() + ")"
	}
	msg := err.Error()
	if len(msg) > 2000 {
		msg = msg[:2000] + "…"
	}
	r.rec.Fail(rec.Failure{Stage: r.stage, Msg: msg, Replay: path})
	// The line the driver looks for. In the rapid stage the same file is overwritten while
	// shrinking, so the last line (and the file content) is the minimal case.
	fmt.Printf("VERIF-FAIL property=%s stage=%s replay=%s msg=%s\n", r.p.ID, r.stage, path,
		strconv.Quote(firstLine(msg)))
	return err
}

func firstLine(s string) string {
	if i := strings.IndexByte(s, '\n'); i >= 0 {
		s = s[:i]
	}
	if len(s) > 300 {
		s = s[:300] + "…"
	}
	return s
}

func (r *runner[C]) safeCheck(c C, o *Obs) (err error) {
	defer func() {
		if p := recover(); p != nil {
			err = fmt.Errorf("panic in check: %v\n%s", p, debug.Stack())
		}
	}()
	return r.p.Check(c, o)
}

// watchdog reports a case that runs longer than the per-case budget. This is never a
// correctness signal except for properties whose statement includes termination.
func (r *runner[C]) watchdog() chan struct{} {
	stop := make(chan struct{})
	go func() {
		tick := time.NewTicker(time.Second)
		defer tick.Stop()
		for {
			select {
			case <-stop:
				return
			case <-tick.C:
			}
			r.mu.Lock()
			c, since := r.inflight, r.inflightT
			r.mu.Unlock()
			budget := r.env.caseTimeout
			if c != nil && r.p.MustTerminate != nil && r.p.MustTerminate(*c) && budget > 150*time.Second {
				budget = 150 * time.Second // calls that take milliseconds; the statement says they end
			}
			if c == nil || time.Since(since) < budget {
				continue
			}
			path := filepath.Join(r.env.replays, fmt.Sprintf("%s-timeout-s%d.json", r.p.ID, r.env.shard))
			js, _ := json.MarshalIndent(*c, "", " ")
			os.MkdirAll(r.env.replays, 0o755)
			os.WriteFile(path, js, 0o644)
			kind := "VERIF-TIMEOUT"
			terminationStated := r.p.TerminationIsProperty || (r.p.MustTerminate != nil && r.p.MustTerminate(*c))
			if terminationStated {
				kind = "VERIF-FAIL"
				r.rec.Fail(rec.Failure{Stage: r.stage, Msg: "case did not terminate within " + budget.String(), Replay: path})
			}
			fmt.Printf("%s property=%s stage=%s replay=%s msg=%s\n", kind, r.p.ID, r.stage, path,
				strconv.Quote("case did not terminate within "+budget.String()))
			r.rec.Dump(r.env.out)
			if terminationStated {
				os.Exit(1)
			}
			os.Exit(3)
		}
	}()
	return stop
}

// readable converts a case into a generic JSON value with long strings abbreviated, for
// the samples list of the evidence file.
func readable(c any) any {
	js, err := json.Marshal(c)
	if err != nil {
		return fmt.Sprintf("%+v", c)
	}
	var v any
	if err := json.Unmarshal(js, &v); err != nil {
		return string(js)
	}
	return abbreviate(v, 0)
}

func abbreviate(v any, depth int) any {
	switch x := v.(type) {
	case string:
		if len(x) > 160 {
			return fmt.Sprintf("%s…(%d bytes)", x[:120], len(x))
		}
		return x
	case []any:
		n := len(x)
		lim := 24
		if depth > 1 {
			lim = 12
		}
		out := make([]any, 0, min(n, lim)+1)
		for i, e := range x {
			if i >= lim {
				out = append(out, fmt.Sprintf("…(%d more)", n-lim))
				break
			}
			out = append(out, abbreviate(e, depth+1))
		}
		return out
	case map[string]any:
		out := map[string]any{}
		for k, e := range x {
			out[k] = abbreviate(e, depth+1)
		}
		return out
	}
	return v
}

// catch runs f and returns the recovered panic value, if any.
func catch(f func()) (p any) {
	defer func() { p = recover() }()
	f()
	return nil
}

// RunFuzz is the coverage-guided stage of the thorough tier: the same generator and the same
// check as the rapid stage, but with the generator's random choices read from the bytes the
// native Go fuzzer mutates (rapid.MakeFuzz), so that inputs reaching new code are kept and
// mutated further. A failing case is written as the usual JSON replay file.
func RunFuzz[C any](f *testing.F, p Prop[C]) {
	env := getenv()
	r := &runner[C]{p: p, env: env, stage: "genfuzz"}
	// Every fuzz worker is a process of its own; each dumps its recorder when it is told to stop.
	r.rec = rec.New(p.ID, "genfuzz", os.Getpid())
	stop := r.watchdog()
	f.Cleanup(func() {
		close(stop)
		if os.Getenv("VERIF_OUT") != "" && r.rec.Evaluations() > 0 {
			r.rec.Dump(env.out)
		}
	})
	// Seed inputs: deterministic pseudo-random byte strings of several lengths (every 8 bytes
	// are one 64-bit choice of the generator), so that the fuzzer starts from complete cases.
	x := uint64(0x9e3779b97f4a7c15)
	next := func() uint64 {
		x += 0x9e3779b97f4a7c15
		z := x
		z = (z ^ (z >> 30)) * 0xbf58476d1ce4e5b9
		z = (z ^ (z >> 27)) * 0x94d049bb133111eb
		return z ^ (z >> 31)
	}
	for _, n := range []int{64, 256, 1024, 4096, 16384, 65536} {
		for rep := 0; rep < 6; rep++ {
			b := make([]byte, n)
			for i := 0; i+8 <= n; i += 8 {
				v := next()
				if rep%2 == 1 {
					v >>= 56 - uint(i%7)*8 // small choices as well as full-range ones
				}
				for k := 0; k < 8; k++ {
					b[i+k] = byte(v >> (8 * k))
				}
			}
			f.Add(b)
		}
	}
	f.Fuzz(rapid.MakeFuzz(func(rt *rapid.T) {
		c := p.Gen(rt, true)
		if err := r.eval(c, false); err != nil {
			rt.Fatalf("%v", err)
		}
	}))
}

// RunConcurrent is the concurrent-use stage, run in a binary built with the race detector:
// the checks of several generated cases run at the same time on separate goroutines. The
// library's package-level functions and independent values (readers over different streams,
// different tries, sketches, indexes, matrices that are only read) share nothing a caller can
// see, so every check must come out as it does alone and the race detector must stay silent;
// a package-level scratch table, cache or pool that is not safe for concurrent use shows up as
// a DATA RACE report (mapped to a violation by the driver) or as a failing check.
func RunConcurrent[C any](t *testing.T, p Prop[C], workers int) {
	env := getenv()
	r := &runner[C]{p: p, env: env, t: t, stage: "concurrent"}
	r.rec = rec.New(p.ID, "concurrent", env.shard)
	stop := r.watchdog()
	defer close(stop)
	defer func() {
		if err := r.rec.Dump(env.out); err != nil {
			t.Errorf("cannot write recorder dump: %v", err)
		}
	}()
	keepTempUntilBatchEnd = true
	defer func() { keepTempUntilBatchEnd = false }()
	rapid.Check(t, func(rt *rapid.T) {
		cases := make([]C, workers)
		for i := range cases {
			cases[i] = p.Gen(rt, false)
		}
		obs := make([]Obs, workers)
		errs := make([]error, workers)
		r.mu.Lock()
		r.inflight, r.inflightT = &cases[0], time.Now()
		r.mu.Unlock()
		var wg sync.WaitGroup
		for i := range cases {
			wg.Add(1)
			go func(i int) {
				defer wg.Done()
				errs[i] = r.safeCheck(cases[i], &obs[i])
			}(i)
		}
		wg.Wait()
		r.mu.Lock()
		r.inflight = nil
		r.mu.Unlock()
		removeTemp()
		var first error
		for i := range cases {
			obs[i].Class("checked concurrently with other cases")
			if err := r.record(cases[i], &obs[i], errs[i], false, ""); err != nil && first == nil {
				first = fmt.Errorf("while %d cases were being checked at the same time on separate goroutines: %v", workers, err)
			}
		}
		if first != nil {
			rt.Fatalf("%v", first)
		}
	})
}
