package props

// C06: decoding is independent of how bytes are delivered; File equals Reader.

import (
	"bytes"
	"encoding/json"
	"fmt"
	"io"
	"os"
	"path/filepath"
	"strings"
	"testing"

	"pgregory.net/rapid"
	"verif/harness/internal/fault"
	"verif/harness/internal/gen"
)

type C06Case struct {
	Format      string     `json:"format"`
	Text        StreamText `json:"text"`
	Chunks      []int      `json:"chunks"` // random schedule (cyclic)
	EOFWithData bool       `json:"eof_with_data"`
	Files       bool       `json:"files"`           // also compare File(plain), File(.gz), File(nonexistent)
	Light       bool       `json:"light,omitempty"` // huge input: only memory vs. the chunk schedule vs. CRLF
}

// genStreamText draws a well-formed text (possibly larger than bufio's buffers) or, with
// allowArbitrary, an arbitrary / near-valid byte string.
func genStreamText(t *rapid.T, format string, allowArbitrary, allowBig bool) StreamText {
	if allowArbitrary && rapid.IntRange(0, 2).Draw(t, "arbitrary") == 0 {
		return StreamText{Raw: genNearValid(t, format)}
	}
	nrecs := rapid.SampledFrom([]int{1, 2, 2, 3, 4, 6}).Draw(t, "nrecs")
	st := StreamText{Lines: genWellFormedLines(t, format, nrecs)}
	if len(st.Lines) == 0 {
		st.Lines = genWellFormedLines(t, format, 1)
	}
	if allowBig && rapid.IntRange(0, 5).Draw(t, "big") == 0 {
		// exceed bufio's 4096-byte buffer; vary the phase of record boundaries against 4096
		blockLen := 0
		for _, l := range st.Lines {
			blockLen += len(l) + 1
		}
		target := rapid.SampledFrom([]int{4090, 4096, 4100, 8190, 8200, 12300, 20000}).Draw(t, "target")
		st.Reps = target/max(blockLen, 1) + 1
	}
	return st
}

func genC06(t *rapid.T, thorough bool) C06Case {
	c := C06Case{Format: rapid.SampledFrom(codecNames).Draw(t, "format")}
	c.Text = genStreamText(t, c.Format, true, true)
	c.Chunks = rapid.SliceOfN(rapid.OneOf(rapid.IntRange(1, 4), rapid.IntRange(1, 64), rapid.SampledFrom([]int{1, 2, 4095, 4096, 4097, 100000})), 1, 8).Draw(t, "chunks")
	c.EOFWithData = rapid.Bool().Draw(t, "eofWithData")
	c.Files = rapid.IntRange(0, 3).Draw(t, "files") == 0
	return c
}

func checkC06(c C06Case, o *Obs) error {
	defer cleanupTemp()
	codec := codecs[c.Format]
	if codec == nil {
		return nil
	}
	for _, s := range c.Chunks {
		if s < 1 {
			return nil
		}
	}
	text := c.Text.Render(false)
	limit := len(text) + 16
	base, over, p := collect(func(cb func(Item) bool) { codec.Reader(bytes.NewReader(text), cb) }, limit)
	if p != nil {
		return fmt.Errorf("%s.Reader panicked on %s: %v", c.Format, gen.Abbrev(text), p)
	}
	if over {
		return fmt.Errorf("%s.Reader yields more than %d items for %d input bytes", c.Format, limit, len(text))
	}
	nrec := 0
	for _, it := range base {
		if it.Err == nil {
			nrec++
		}
	}
	o.Class("format:" + c.Format)
	o.ClassIf(!c.Text.wellFormed(), "malformed/arbitrary input")
	o.ClassIf(len(text) > 4096, ">4096 bytes")
	o.ClassIf(c.EOFWithData, "eof with data")

	compare := func(what string, run func(cb func(Item) bool)) error {
		got, over, p := collect(run, limit)
		if p != nil {
			return fmt.Errorf("%s %s panicked: %v (input %s)", c.Format, what, p, gen.Abbrev(text))
		}
		if over || !sameItems(got, base) {
			return fmt.Errorf("%s: %s yields %s, but reading the same %d bytes from memory yields %s (input %s)", c.Format, what, describeItems(got), len(text), describeItems(base), gen.Abbrev(text))
		}
		return nil
	}
	schedules := 0
	sched := func(what string, sizes []int, eofWithData bool) error {
		schedules++
		return compare(what, func(cb func(Item) bool) {
			codec.Reader(&fault.Chunked{Data: text, Sizes: sizes, EOFWithData: eofWithData}, cb)
		})
	}
	if err := sched(fmt.Sprintf("delivery in chunks %v (eof with data: %v)", c.Chunks, c.EOFWithData), c.Chunks, c.EOFWithData); err != nil {
		return err
	}
	if c.Light {
		o.Class("huge line (MiB scale)")
		if c.Text.wellFormed() {
			for i, it := range base {
				if it.Err != nil {
					return fmt.Errorf("%s: well-formed input yields an error at item %d: %v (input %s)", c.Format, i, it.Err, gen.Abbrev(text))
				}
			}
			crlf := c.Text.Render(true)
			o.Class("crlf")
			got, over, p := collect(func(cb func(Item) bool) { codec.Reader(bytes.NewReader(crlf), cb) }, limit)
			if p != nil || over || !sameKeys(got, base) {
				return fmt.Errorf("%s: CRLF rendering decodes to %s, LF rendering to %s (panic %v; LF input %s, longest line %d bytes)", c.Format, describeItems(got), describeItems(base), p, gen.Abbrev(text), c.Text.longestLine())
			}
		}
		if c.Files {
			// a file of several MiB: File(path) (plain and *.gz) against Reader on the same bytes
			o.Class("file of several MiB")
			for _, suffix := range []string{"." + c.Format, "." + c.Format + ".gz"} {
				path := writeTemp(text, suffix)
				if err := compare("File(a "+suffix+" file of "+fmt.Sprint(len(text))+" bytes)", func(cb func(Item) bool) { codec.File(path, cb) }); err != nil {
					return err
				}
			}
		}
		return nil
	}
	if len(text) <= 6000 {
		o.Class("chunk=1")
		if err := sched("one byte per read", []int{1}, c.EOFWithData); err != nil {
			return err
		}
	}
	for _, sz := range []int{2, 3, 5, 7, 16, 64, 4095, 4096, 4097} {
		if sz > len(text)+1 && sz > 64 {
			continue
		}
		if err := sched(fmt.Sprintf("reads of %d bytes", sz), []int{sz}, !c.EOFWithData); err != nil {
			return err
		}
	}
	if len(text) <= 400 {
		// every single split point
		for i := 1; i < len(text); i++ {
			if err := sched(fmt.Sprintf("two reads split at offset %d", i), []int{i, len(text)}, c.EOFWithData); err != nil {
				return err
			}
		}
	}
	if c.Text.wellFormed() {
		// well-formed input: no errors, and CRLF decodes to the same records
		for i, it := range base {
			if it.Err != nil {
				return fmt.Errorf("%s: well-formed input yields an error at item %d: %v (input %s)", c.Format, i, it.Err, gen.Abbrev(text))
			}
		}
		crlf := c.Text.Render(true)
		o.Class("crlf")
		got, over, p := collect(func(cb func(Item) bool) { codec.Reader(bytes.NewReader(crlf), cb) }, limit)
		if p != nil || over || !sameKeys(got, base) {
			return fmt.Errorf("%s: CRLF rendering decodes to %s, LF rendering to %s (panic %v; LF input %s)", c.Format, describeItems(got), describeItems(base), p, gen.Abbrev(text))
		}
		crlfSchedules := [][]int{c.Chunks, {2}, {3}, {5}, {7}, {4096}}
		if len(crlf) <= 6000 {
			crlfSchedules = append(crlfSchedules, []int{1})
		}
		if len(crlf) <= 300 {
			for i := 1; i < len(crlf); i++ {
				crlfSchedules = append(crlfSchedules, []int{i, len(crlf)})
			}
		}
		for _, sizes := range crlfSchedules {
			schedules++
			if err := compare2(codec, crlf, got, sizes, limit); err != nil {
				return fmt.Errorf("%s: CRLF rendering: %v", c.Format, err)
			}
		}
	}

	// The byte stream is what the io.Reader delivers from now on: a seekable reader handed over
	// at an offset > 0 (the caller consumed a prefix of something else) decodes as the rest.
	{
		prefix := []byte("@earlier content that is not part of this stream\n>x\n(y;\n")
		sr := bytes.NewReader(append(bytes.Clone(prefix), text...))
		sr.Seek(int64(len(prefix)), io.SeekStart)
		if err := compare("a bytes.Reader handed over at offset > 0 (a prefix was consumed by the caller)", func(cb func(Item) bool) { codec.Reader(sr, cb) }); err != nil {
			return err
		}
		if c.Files {
			path := writeTemp(append(bytes.Clone(prefix), text...), ".bin")
			if f, err := os.Open(path); err == nil {
				f.Seek(int64(len(prefix)), io.SeekStart)
				err := compare("an *os.File handed over at offset > 0 (a prefix was consumed by the caller)", func(cb func(Item) bool) { codec.Reader(f, cb) })
				f.Close()
				if err != nil {
					return err
				}
			}
		}
	}
	// The input is a *bytes.Buffer whose storage the caller overwrites once decoding is done (a
	// chunk buffer that is refilled): the records stay what they were.
	{
		storage := bytes.Clone(text)
		got, over, p := collect(func(cb func(Item) bool) { codec.Reader(bytes.NewBuffer(storage), cb) }, limit)
		for i := range storage {
			storage[i] = '#'
		}
		if p == nil && !over {
			for i, it := range got {
				if it.Err == nil && it.canon != nil && it.canon() != it.Rec {
					return fmt.Errorf("%s: record item %d read from a *bytes.Buffer changed from %s to %s when the caller overwrote the buffer's storage afterwards (input %s)", c.Format, i, it, Item{Rec: it.canon()}, gen.Abbrev(text))
				}
			}
		}
		if p != nil || over || !sameItems(got, base) {
			return fmt.Errorf("%s: reading from a *bytes.Buffer yields %s (panic %v), from a bytes.Reader %s (input %s)", c.Format, describeItems(got), p, describeItems(base), gen.Abbrev(text))
		}
	}
	// An earlier stream of this format that failed half-way (its reader is done with) leaves
	// nothing behind for the readers that follow.
	collect(func(cb func(Item) bool) { codec.Reader(&fault.FailAfter{Data: text, K: len(text) / 2}, cb) }, limit)
	// Readers in use at the same time (paired files read in lockstep): a reader over these
	// bytes, one over other data of the same format (a fixed small input repeated until it is
	// longer than this one) that starts one item later, and a third over these bytes again,
	// two items behind and fed in other chunk sizes. Each yields what it yields alone.
	{
		o.Class("lockstep readers")
		small := smallInputs[c.Format][len(text)%len(smallInputs[c.Format])]
		other := bytes.Repeat([]byte(small), len(text)/max(1, len(small))+2)
		otherBase, oover, op := collect(func(cb func(Item) bool) { codec.Reader(bytes.NewReader(other), cb) }, len(other)+16)
		if op == nil && !oover {
			got, p := lockstep(codec, []io.Reader{bytes.NewReader(text), bytes.NewReader(other),
				&fault.Chunked{Data: text, Sizes: c.Chunks, EOFWithData: c.EOFWithData}}, max(limit, len(other)+16))
			if p != nil {
				return fmt.Errorf("%s: three readers advanced in turn: %v (input %s, second reader's input %s)", c.Format, p, gen.Abbrev(text), gen.Abbrev(other))
			}
			for i, want := range [][]Item{base, otherBase, base} {
				if !sameKeys(got[i], want) {
					return fmt.Errorf("%s: with three readers advanced in turn (first and third over this input, second over %s), reader %d yields %s, but alone it yields %s (input %s)",
						c.Format, gen.Abbrev(other), i+1, describeItems(got[i]), describeItems(want), gen.Abbrev(text))
				}
			}
		}
	}

	o.Count("read_schedules", schedules)
	if c.Files {
		o.Class("file")
		o.Class("gz")
		o.Class("nonexistent")
		plain := writeTemp(text, "."+c.Format)
		if err := compare("File(plain file)", func(cb func(Item) bool) { codec.File(plain, cb) }); err != nil {
			return err
		}
		gz := writeTemp(text, "."+c.Format+".gz")
		if err := compare("File(gzip-compressed *.gz file)", func(cb func(Item) bool) { codec.File(gz, cb) }); err != nil {
			return err
		}
		multi := writeTemp(text, "."+c.Format+".gz", 3)
		if err := compare("File(*.gz file made of three concatenated gzip members)", func(cb func(Item) bool) { codec.File(multi, cb) }); err != nil {
			return err
		}
		// a *.gz cut short (interrupted transfer): File must not end as though the data were
		// complete - it yields an error - and whatever records it yields are leading records
		if gzData, err := os.ReadFile(gz); err == nil && len(gzData) > 24 && nrec >= 1 {
			cut := filepath.Join(scratchDir(), fmt.Sprintf("cut%d x.%s.gz", nextTmp(), c.Format))
			if os.WriteFile(cut, gzData[:len(gzData)-9], 0o644) == nil {
				trackTemp(cut)
				got, over, p := collect(func(cb func(Item) bool) { codec.File(cut, cb) }, limit)
				if p != nil || over {
					return fmt.Errorf("%s.File(a *.gz file cut short by 9 bytes) panicked or did not end: %v", c.Format, p)
				}
				j, nerr := 0, 0
				var recs []Item
				for _, it := range base {
					if it.Err == nil {
						recs = append(recs, it)
					}
				}
				for _, it := range got {
					if it.Err != nil {
						nerr++
						continue
					}
					if j >= len(recs) || it.key() != recs[j].key() {
						return fmt.Errorf("%s.File(a *.gz file cut short by 9 bytes): record item %d is %s, not record %d of the complete file (input %s)", c.Format, j, it, j, gen.Abbrev(text))
					}
					j++
				}
				if nerr == 0 {
					return fmt.Errorf("%s.File(a *.gz file cut short by 9 bytes) yields %s and no error, as though the data were complete (input %s)", c.Format, describeItems(got), gen.Abbrev(text))
				}
			}
		}
		// The value returned by File(path) stands for the file: ranging over it again (also after
		// an abandoned pass) yields the file's items again.
		again := codec.FileSeq(plain)
		if err := compare("File(plain file), first pass over the iterator value", again); err != nil {
			return err
		}
		collect(again, 1) // abandoned after one item
		if err := compare("File(plain file), another pass over the same iterator value", again); err != nil {
			return err
		}
		// ... also when the abandoned pass is the very first use of the value (plain and *.gz), and
		// when two passes were abandoned at different points
		for _, path := range []string{plain, gz} {
			fresh := codec.FileSeq(path)
			collect(fresh, 1)
			if err := compare("File("+filepath.Ext(path)+" file): a pass over an iterator value whose first pass was abandoned after one item", fresh); err != nil {
				return err
			}
			collect(fresh, 2)
			collect(fresh, 1)
			if err := compare("File("+filepath.Ext(path)+" file): a pass over an iterator value after a full pass and two abandoned ones", fresh); err != nil {
				return err
			}
		}
		// a *.gz that cannot be opened as gzip (zero bytes; not gzip data) yields an error, no records
		for _, bad := range [][]byte{{}, []byte("this is not gzip data\n")} {
			badPath := filepath.Join(scratchDir(), fmt.Sprintf("bad%d.%s.gz", nextTmp(), c.Format))
			os.WriteFile(badPath, bad, 0o644)
			trackTemp(badPath)
			got, over, p := collect(func(cb func(Item) bool) { codec.File(badPath, cb) }, 8)
			if p != nil {
				return fmt.Errorf("%s.File(%d-byte file named *.gz that is not gzip data) panicked: %v", c.Format, len(bad), p)
			}
			if over || len(got) == 0 || got[0].Err == nil {
				return fmt.Errorf("%s.File(%d-byte file named *.gz that is not gzip data) yields %s, want an error", c.Format, len(bad), describeItems(got))
			}
		}
		// the name the caller passes decides about decompression, also through symbolic links
		seqNo := nextTmp()
		linkGz := filepath.Join(scratchDir(), fmt.Sprintf("link%d.%s.gz", seqNo, c.Format))
		blob := filepath.Join(scratchDir(), fmt.Sprintf("blob%d", seqNo))
		if gzData, err := os.ReadFile(gz); err == nil && os.WriteFile(blob, gzData, 0o644) == nil && os.Symlink(blob, linkGz) == nil {
			trackTemp(blob, linkGz)
			if err := compare("File(symbolic link named *.gz to gzip data in a file without suffix)", func(cb func(Item) bool) { codec.File(linkGz, cb) }); err != nil {
				return err
			}
		}
		linkPlain := filepath.Join(scratchDir(), fmt.Sprintf("link%d.%s", seqNo, c.Format))
		plainGzNamed := filepath.Join(scratchDir(), fmt.Sprintf("plain%d.gz", seqNo))
		if os.WriteFile(plainGzNamed, text, 0o644) == nil && os.Symlink(plainGzNamed, linkPlain) == nil {
			trackTemp(plainGzNamed, linkPlain)
			if err := compare("File(symbolic link without .gz suffix to plain data in a file named *.gz)", func(cb func(Item) bool) { codec.File(linkPlain, cb) }); err != nil {
				return err
			}
		}
		// a directory is not a readable file either: an error, no records (also when named *.gz)
		for _, suffix := range []string{"", ".gz"} {
			dir := filepath.Join(scratchDir(), fmt.Sprintf("dir%d.%s%s", nextTmp(), c.Format, suffix))
			if os.Mkdir(dir, 0o755) != nil {
				continue
			}
			trackTemp(dir)
			got, over, p := collect(func(cb func(Item) bool) { codec.File(dir, cb) }, 8)
			if p != nil {
				return fmt.Errorf("%s.File(a directory) panicked: %v", c.Format, p)
			}
			if over || len(got) == 0 || got[0].Err == nil {
				return fmt.Errorf("%s.File(a directory named %q) yields %s, want an error", c.Format, filepath.Base(dir), describeItems(got))
			}
		}
		// a missing path is missing even if the same name with ".gz" appended exists
		{
			sibling := writeTemp(text, "."+c.Format+".gz")
			got, over, p := collect(func(cb func(Item) bool) { codec.File(strings.TrimSuffix(sibling, ".gz"), cb) }, 8)
			if p != nil || over || len(got) == 0 || got[0].Err == nil {
				return fmt.Errorf("%s.File(a path that does not exist, while path+\".gz\" does) yields %s (panic %v), want an error", c.Format, describeItems(got), p)
			}
		}
		// a path is a path: the name of an existing file with white space added at either end
		// names no file; a file whose name does end in a blank is read as any other
		for _, ws := range []string{" ", "\n", "\r", "\t"} {
			for _, padded := range []string{plain + ws, filepath.Join(filepath.Dir(plain), ws+filepath.Base(plain))} {
				got, over, p := collect(func(cb func(Item) bool) { codec.File(padded, cb) }, 8)
				if p != nil || over || len(got) == 0 || got[0].Err == nil {
					return fmt.Errorf("%s.File(%q), which does not exist (the file %q does), yields %s (panic %v), want an error", c.Format, filepath.Base(padded), filepath.Base(plain), describeItems(got), p)
				}
			}
		}
		{
			blank := filepath.Join(scratchDir(), fmt.Sprintf(" b%d.%s ", nextTmp(), c.Format))
			if err := os.WriteFile(blank, text, 0o644); err == nil {
				trackTemp(blank)
				if err := compare("File(a file whose name starts and ends with a blank)", func(cb func(Item) bool) { codec.File(blank, cb) }); err != nil {
					return err
				}
			}
		}
		missing := filepath.Join(scratchDir(), "does-not-exist", "x."+c.Format)
		got, over, p := collect(func(cb func(Item) bool) { codec.File(missing, cb) }, 8)
		if p != nil {
			return fmt.Errorf("%s.File(nonexistent path) panicked: %v", c.Format, p)
		}
		if over || len(got) == 0 || got[0].Err == nil {
			return fmt.Errorf("%s.File(nonexistent path) yields %s, want an error", c.Format, describeItems(got))
		}
		for _, it := range got {
			if it.Err == nil {
				return fmt.Errorf("%s.File(nonexistent path) yields a record: %s", c.Format, describeItems(got))
			}
		}
	}
	o.NT = (nrec >= 2 && len(text) >= 2) || (c.Files && nrec >= 1)
	return nil
}

// compare2 re-checks chunked delivery on another rendering of the text.
func compare2(codec *Codec, text []byte, base []Item, chunks []int, limit int) error {
	got, over, p := collect(func(cb func(Item) bool) {
		codec.Reader(&fault.Chunked{Data: text, Sizes: chunks}, cb)
	}, limit)
	if p != nil || over || !sameKeys(got, base) {
		return fmt.Errorf("delivery in chunks %v yields %s, from memory %s (panic %v)", chunks, describeItems(got), describeItems(base), p)
	}
	return nil
}

// smallInputs: about ten short inputs per format (well-formed and malformed).
var smallInputs = map[string][]string{
	"fasta":  {">a\nAC\n", ">a\r\nAC\r\nGT\r\n", "\x1f\x8b\n>a\nAC\n", "\x1f\x8b\x08\x00>a\nAC\n", ">\n\n", "AC\n>b\nG", ">a\n>b\n", "\n\n>x\nA", ">a\rAC\r", "", ">", "A>B\n>c\n"},
	"fastq":  {"@a\nAC\n+\nII\n", "@a\r\nAC\r\n+\r\nII\r\n", "\x1f\x8b@a\nAC\n+\nII\n", "@a\nAC\n+\nI\n", "@a\nAC\n", "a\nAC\n+\nII\n", "@\n\n+\n\n", "@a\nA\n+a\nI\n@b\nC\n+\nJ", "", "@", "@a\nAC\nII\n"},
	"sam":    {"@HD\tVN:1\nq\t0\tr\t1\t2\t3M\t=\t4\t5\tACG\tIII\n", "\x1f\x8bq\t0\tr\t1\t2\t3M\t=\t4\t5\tACG\tIII\n", "q\t0\tr\t1\t2\t3M\t=\t4\t5\tACG\tIII\tX:i:1\r\n", "q\t0\tr\n", "\n\n", "q\tx\tr\t1\t2\t3M\t=\t4\t5\tACG\tIII\n", "@a", "", "q\t0\tr\t1\t2\t3M\t=\t4\t5\tA\t\"I\nr\t0\tr\t1\t2\t3M\t=\t4\t5\tA\tI\n"},
	"samh":   {"@HD\tVN:1\nq\t0\tr\t1\t2\t3M\t=\t4\t5\tACG\tIII\n", "\x1f\x8bq\t0\tr\t1\t2\t3M\t=\t4\t5\tACG\tIII\n", "@a\r\n@b\r\n", "@CO\t\"x\" y\nq\t0\tr\n", "", "@", "q\t0\tr\t1\t2\t3M\t=\t4\t5\tACG\tIII\tXX:A:\xff\n"},
	"bed":    {"c\t1\t2\n", "c\t1\t2\r\nd\t3\t4\r\n", "\x1f\x8bc\t1\t2\nd\t3\t4\n", "\x1f\x8b\x08\x00\t1\t2\n", "#x\nc\t1\t2\tn\t5\t+\n", "c\t1\n", "c\t1\t2\nd\t3\n", "c\t1\t2\tn\"m\n", "\n", "", "c\tx\t2\n", "c\t1\t2\tn\t5\t+\t1\t2\t1,2,3\t2\t1,2\t3,4"},
	"newick": {"(a,b)c;", "(a:1,b:2.5)c:3;\n(d)e;", "(\x1f\x8b,b)c;", "\x1f\x8b;", "a;b;c;", "(a,b", "'a b';", "(a,b));", "", ";", "( a , b ) c ;\r\n", "a:x;", "'a''b':1e2;", "(A,ab'cd');", "(a'b,c)d;", "ab'c';"},
}

// realInputs: inputs shaped as real tools write them.
var realInputs = map[string][]string{
	"fasta": {">gi|1|ref|NP_1.1| protein A [Homo sapiens] >gi|2|gb|AAA.1| protein A [Pan]\nMKV\nLLX*\n>seq2 A->G variant\nacgtNNNNnnnnACGT\n\n",
		">chrM\n" + strings.Repeat("GATCACAGGTCTATCACCCTATTAACCACTCACGGGAGCTCTCCATGCATTTGGTATTTT\n", 12) + "GATCACAGGT\n>chrUn_gl000220\nNNNN\n"},
	"fastq": {"@M01234:56:000000000-ABCDE:1:1101:15589:1332 1:N:0:1\nACGTN\n+\n!~III\n@r/1\nA\n+r/1\n#\n",
		"@SRR1.1 1 length=4\nACGT\n+SRR1.1 1 length=4\n!!!!\n\n"},
	"sam": {"@HD\tVN:1.6\tSO:coordinate\n@SQ\tSN:chr1\tLN:248956422\n@PG\tID:bwa\tCL:bwa mem -R '@RG\\tID:x' ref.fa\nr1\t99\tchr1\t10468\t0\t4M\t=\t10500\t36\tACGT\tFFFF\tNM:i:0\tMD:Z:4\tAS:i:4\tXS:i:4\tRG:Z:x\tSA:Z:chr2,5,+,2S2M,0,0;\tde:f:0\tms:i:4\tML:B:C\n" +
		"r1\t147\tchr1\t10500\t0\t4M\t=\t10468\t-36\tACGT\tFFFF\tNM:i:0\n*\t4\t*\t0\t0\t*\t*\t0\t0\t*\t*\n"},
	"samh": {"@HD\tVN:1.6\n@CO\tuser comment with\ttabs and 'quotes' and \"quotes\"\nr\t0\tchr1\t1\t255\t1M\t*\t0\t0\tA\t~\n"},
	"bed": {"browser position chr7:127471196-127495720\ntrack name=\"ItemRGBDemo\" description=\"Item RGB demonstration\" itemRgb=\"On\"\nchr7\t127471196\t127472363\tPos1\t0\t+\t127471196\t127472363\t255,0,0\n",
		"chr1\t11873\t14409\tuc001aaa.3\t0\t+\t11873\t11873\t0\t3\t354,109,1189,\t0,739,1347,\nchr1\t0\t0\t.\t0\t.\n"},
	"newick": {"((A:0.1,B:0.2)[&posterior=1.0," + strings.Repeat("height_95%_HPD={0.125,0.25},rate=1.0E-4,", 5) + "x=1]:0.3,C:1e-05)100:0.0;\n",
		"((Homo_sapiens:-0.0012,'Pan troglodytes':1.0E+2)95:0.5,Gorilla)100;(a,b)100;\n"},
}

func exhaustiveC06(thorough bool, emit func(C06Case) bool) {
	for _, f := range codecNames {
		for i, in := range append(append([]string{}, smallInputs[f]...), realInputs[f]...) {
			c := C06Case{Format: f, Text: StreamText{Raw: gen.B(in)}, Chunks: []int{1 + i%3}, EOFWithData: i%2 == 0, Files: true}
			if !emit(c) {
				return
			}
		}
	}
	// a line whose content is exactly 4094..4097 / 8191..8193 bytes long, between ordinary lines,
	// rendered with LF and with CRLF (the CR or the LF falls on the last byte of a 4096-byte buffer)
	for _, f := range codecNames {
		for _, n := range []int{4094, 4095, 4096, 4097, 8191, 8192, 8193, 12287} {
			var ls []gen.B
			pad := func(base int) string { return strings.Repeat("ACGT", n/4+1)[:n-base] }
			switch f {
			case "fasta":
				ls = []gen.B{gen.B(">a"), gen.B("AC"), gen.B(">" + pad(1)), gen.B(pad(0)), gen.B(">b"), gen.B("GT")}
			case "fastq":
				ls = []gen.B{gen.B("@a"), gen.B("AC"), gen.B("+"), gen.B("II"), gen.B("@b"), gen.B(pad(0)), gen.B("+"), gen.B(strings.Repeat("I", n)), gen.B("@c"), gen.B("G"), gen.B("+"), gen.B("J")}
			case "sam", "samh":
				base := "q2\t0\tr\t1\t2\tM\t=\t4\t5\tA\t"
				ls = []gen.B{gen.B("q1\t0\tr\t1\t2\tM\t=\t4\t5\tA\tI"), gen.B(base + pad(len(base))), gen.B("q3\t0\tr\t1\t2\tM\t=\t4\t5\tA\tI\tXX:Z:" + pad(40)), gen.B("q4\t0\tr\t1\t2\tM\t=\t4\t5\tA\tI")}
				if f == "samh" {
					ls = append([]gen.B{gen.B("@CO\t" + pad(4))}, ls...)
				}
			case "bed":
				ls = []gen.B{gen.B("c\t1\t2\tn"), gen.B("c\t1\t2\t" + pad(6)), gen.B("d\t3\t4\tm")}
			case "newick":
				ls = []gen.B{gen.B("(a,b)c;"), gen.B("(" + pad(6) + ",b)d;"), gen.B("(e)f;")}
			}
			if !emit(C06Case{Format: f, Text: StreamText{Lines: ls}, Chunks: []int{4096}, EOFWithData: n%2 == 0}) {
				return
			}
		}
	}
	// the same at MiB scale: a line whose content is exactly 2^k-1 or 2^k bytes long (quick: k = 20
	// and 24; thorough: every k from 16 to 24, also 2^k-2 and 2^k+1), LF against CRLF and against
	// a delivery in 1 MiB-and-a-bit chunks
	{
		ks, ds := []int{20, 24}, []int{-1, 0}
		if thorough {
			ks, ds = []int{16, 17, 18, 19, 20, 21, 22, 23, 24}, []int{-2, -1, 0, 1}
		}
		for _, f := range codecNames {
			for _, k := range ks {
				for _, d := range ds {
					n := 1<<k + d
					pad := func(base int) string { return strings.Repeat("ACGT", n/4+1)[:n-base] }
					var ls []gen.B
					switch f {
					case "fasta":
						ls = []gen.B{gen.B(">a"), gen.B("AC"), gen.B(">b"), gen.B(pad(0)), gen.B(">" + pad(1)), gen.B("GT")}
					case "fastq":
						ls = []gen.B{gen.B("@a"), gen.B("AC"), gen.B("+"), gen.B("II"), gen.B("@b"), gen.B(pad(0)), gen.B("+"), gen.B(strings.Repeat("I", n)), gen.B("@c"), gen.B("G"), gen.B("+"), gen.B("J")}
					case "sam", "samh":
						base := "q2\t0\tr\t1\t2\tM\t=\t4\t5\tA\tI\tXX:Z:"
						ls = []gen.B{gen.B("q1\t0\tr\t1\t2\tM\t=\t4\t5\tA\tI"), gen.B(base + pad(len(base))), gen.B("q4\t0\tr\t1\t2\tM\t=\t4\t5\tA\tI")}
						if f == "samh" {
							ls = append([]gen.B{gen.B("@CO\t" + pad(4))}, ls...)
						}
					case "bed":
						ls = []gen.B{gen.B("c\t1\t2\tn"), gen.B("c\t1\t2\t" + pad(6)), gen.B("d\t3\t4\tm")}
					case "newick":
						ls = []gen.B{gen.B("(a,b)c;"), gen.B("(" + pad(6) + ",b)d;"), gen.B("(e)f;")}
					}
					if !emit(C06Case{Format: f, Text: StreamText{Lines: ls}, Chunks: []int{1<<20 + 7}, EOFWithData: k%2 == 0, Light: true}) {
						return
					}
				}
			}
		}
	}
	// files of 5 MiB (4 MiB and a bit in the quick tier) made of lines of exactly 128 bytes, so that a
	// line starts at every multiple of 1 MiB (and of every smaller power of two): File against Reader
	{
		pad := func(s string, n int) string { return s + strings.Repeat("A", n-len(s)) }
		block := map[string][]string{
			"fasta":  {pad(">read", 127), pad("ACGT", 127)},
			"fastq":  {pad("@read", 127), pad("ACGT", 127), pad("+", 127), pad("IIII", 127)},
			"sam":    {pad("q\t0\tr\t1\t2\tM\t=\t4\t5\tA\tI\tXX:Z:", 127)},
			"samh":   {pad("q\t0\tr\t1\t2\tM\t=\t4\t5\tA\tI\tXX:Z:", 127), pad("@CO\t", 127)},
			"bed":    {pad("c\t1\t2\t", 127)},
			"newick": {pad("(a,b)", 126) + ";"},
		}
		size := 4<<20 + 4096
		if thorough {
			size = 5<<20 + 1<<19
		}
		for _, f := range codecNames {
			var ls []gen.B
			n := 0
			for _, l := range block[f] {
				ls = append(ls, gen.B(l))
				n += len(l) + 1
			}
			if f == "fastq" {
				ls[2] = gen.B("+" + strings.Repeat("A", 126)) // "+read-name" form of the separator line
			}
			if !emit(C06Case{Format: f, Text: StreamText{Lines: ls, Reps: size / n}, Chunks: []int{1 << 20}, Files: true, Light: true}) {
				return
			}
		}
	}
	// many small records: far more data in total than any internal block, buffer or arena
	many := map[string][]string{
		"fasta":  {">read1/1 x", "ACGTACGTAC", ">r2", "GGGGGGGGGGGGGGGGGGGG"},
		"fastq":  {"@r1/1", "ACGTACGTAC", "+", "IIIIIIIIII", "@r2", "TT", "+r2", "!~"},
		"sam":    {"r1\t99\tchr1\t100\t60\t4M\t=\t200\t104\tACGT\tIIII\tNM:i:1\tRG:Z:g", "r2\t4\t*\t0\t0\t*\t*\t0\t0\tAC\tII"},
		"samh":   {"@CO\tc", "r1\t99\tchr1\t100\t60\t4M\t=\t200\t104\tACGT\tIIII\tNM:i:1"},
		"bed":    {"chr1\t100\t200\tn\t5\t+\t100\t200\t255,0,0\t1\t100\t0", "chr1\t300\t400\tm\t7\t-\t300\t400\t0,0,255\t2\t10,20\t0,80"},
		"newick": {"(a:1,b:2)c;", "((d,e)f,g)h:12.5;"},
	}
	for _, f := range codecNames {
		var ls []gen.B
		blockLen := 0
		for _, l := range many[f] {
			ls = append(ls, gen.B(l))
			blockLen += len(l) + 1
		}
		if !emit(C06Case{Format: f, Text: StreamText{Lines: ls, Reps: 200000 / blockLen}, Chunks: []int{4096, 1, 100000}, EOFWithData: true}) {
			return
		}
		// the same with a running number in every record, so that no two records are equal and the
		// data has no period
		var raw bytes.Buffer
		for i := 0; raw.Len() < 200000; i++ {
			for _, l := range many[f] {
				switch {
				case strings.HasPrefix(l, ">"), strings.HasPrefix(l, "@r"):
					fmt.Fprintf(&raw, "%s.%d\n", l, i)
				case strings.HasPrefix(l, "r"), strings.HasPrefix(l, "chr"):
					fmt.Fprintf(&raw, "%s%d%s\n", l[:2], i, l[2:])
				case strings.HasPrefix(l, "("):
					fmt.Fprintf(&raw, "(n%d,%s)x%d;\n", i, strings.TrimSuffix(l, ";"), i)
				case strings.HasPrefix(l, "@CO"):
					fmt.Fprintf(&raw, "%s%d\n", l, i)
				default:
					raw.WriteString(l + "\n")
				}
			}
		}
		if !emit(C06Case{Format: f, Text: StreamText{Raw: raw.Bytes()}, Chunks: []int{4096, 7, 100000}}) {
			return
		}
	}
	// three records of one layout with one byte replaced by a line feed, or dropped (a line broken
	// in two, a line one short: malformed for most formats), delivered whole and byte by byte
	for _, f := range codecNames {
		var base bytes.Buffer
		for rep := 0; rep < 3; rep++ {
			for _, l := range many[f] {
				base.WriteString(l + "\n")
			}
		}
		text := base.Bytes()
		for p := 0; p < len(text); p++ {
			if text[p] == '\n' {
				continue
			}
			broken := bytes.Clone(text)
			broken[p] = '\n'
			short := append(bytes.Clone(text[:p]), text[p+1:]...)
			for i, raw := range [][]byte{broken, short} {
				if !emit(C06Case{Format: f, Text: StreamText{Raw: raw}, Chunks: [][]int{{100000}, {1}, {3, 64}}[(p+i)%3], EOFWithData: p%2 == 0}) {
					return
				}
			}
		}
	}
	// every partition of tiny inputs into chunks
	maxN := 12
	if thorough {
		maxN = 22
	}
	for _, f := range codecNames {
		for _, in := range tinyInputs[f] {
			n := len(in)
			if n == 0 || n > maxN {
				continue
			}
			for mask := 0; mask < 1<<(n-1); mask++ {
				var sizes []int
				run := 1
				for b := 0; b < n-1; b++ {
					if mask&(1<<b) != 0 {
						sizes = append(sizes, run)
						run = 1
					} else {
						run++
					}
				}
				sizes = append(sizes, run)
				if !emit(C06Case{Format: f, Text: StreamText{Raw: gen.B(in)}, Chunks: sizes, EOFWithData: mask%2 == 1}) {
					return
				}
			}
		}
	}
}

// tinyInputs: inputs short enough to enumerate every partition into successive reads.
var tinyInputs = map[string][]string{
	"fasta":  {">a\nAC\n", ">\n\n", ">a\r\nA\r\nC", "AC\n>b\nG", ">a\n\n>b\nT\n", "\xef\xbb\xbf>a\nA\n", ">a\r\n\r\nA\r\n"},
	"fastq":  {"@a\nA\n+\nI\n", "@\n\n+\n\n", "@a\nA\n+\n", "@a\r\nA\r\n+\r\nI", "@a\nAC\n+\nI\n", "\xef\xbb\xbf@a\nA\n+\nI"},
	"sam":    {"q\t0\tr\n", "@a\n@b\r\n", "\n\nq\n", "\xef\xbb\xbf@a\nq\n", "@a\r\n\r\n@b\r\n", "\r\n\r\nq\r\n", "q\t0\tr\t1\t2\tM\t=\t4\t5\tA\tI\n", "@h\nq\t0\tr\t1\t2\tM\t=\t4\t5\tA\tI"},
	"samh":   {"@a\n@b\r\n", "@\nq\n", "@a\r\n\r\n@b\r\n", "\xef\xbb\xbf@a\n", "q\t0\tr\t1\t2\tM\t=\t4\t5\tA\tI\n"},
	"bed":    {"c\t1\t2\n", "c\t1\t2\r\n", "#x\nc\t1\t2", "c\t1\n", "\xef\xbb\xbfc\t1\t2\n", "\xef\xbb\xbf#x\nc\t1\t2", "\r\n\r\nc\t1\t2", "c\t1\t2\nd\t3\t4", "c\t1\t2\tn\t5\t+\n"},
	"newick": {"(a,b)c;", "a;b;c;", "(a,b", "'a b';", "a:1;\nb;", "(a\r\n,b\r\n)c;", "a:1\r\n;", "\xef\xbb\xbfa;", "(a:1,b)c:2;", "'a''b';x;"},
}

func propC06() Prop[C06Case] {
	return Prop[C06Case]{ID: "C06", Gen: genC06, Exhaustive: exhaustiveC06, Check: checkC06}
}

func TestC06(t *testing.T) { Run(t, propC06()) }

func FuzzGenC06(f *testing.F) { RunFuzz(f, propC06()) }

func TestRaceC06(t *testing.T) { RunConcurrent(t, propC06(), 4) }

// ---- native fuzz targets (thorough tier) ------------------------------------------------

func fuzzDelivery(f *testing.F, format string) {
	for _, in := range append(append([]string{}, smallInputs[format]...), tinyInputs[format]...) {
		f.Add([]byte(in), uint16(3), false)
	}
	f.Fuzz(func(t *testing.T, data []byte, split uint16, eof bool) {
		c := C06Case{Format: format, Text: StreamText{Raw: data}, Chunks: []int{1 + int(split%7), 1 + int(split/7%64), 1 + int(split/448)}, EOFWithData: eof}
		var o Obs
		var err error
		if p := catch(func() { err = checkC06(c, &o) }); p != nil {
			err = fmt.Errorf("panic in check: %v", p)
		}
		if err != nil {
			if dir := os.Getenv("VERIF_REPLAYS"); dir != "" {
				js, _ := json.MarshalIndent(c, "", " ")
				os.MkdirAll(dir, 0o755)
				os.WriteFile(filepath.Join(dir, "C06-fuzz-"+format+".json"), js, 0o644)
			}
			t.Fatalf("%v", err)
		}
	})
}

func FuzzDeliveryFasta(f *testing.F)  { fuzzDelivery(f, "fasta") }
func FuzzDeliveryFastq(f *testing.F)  { fuzzDelivery(f, "fastq") }
func FuzzDeliverySam(f *testing.F)    { fuzzDelivery(f, "samh") }
func FuzzDeliveryBed(f *testing.F)    { fuzzDelivery(f, "bed") }
func FuzzDeliveryNewick(f *testing.F) { fuzzDelivery(f, "newick") }
