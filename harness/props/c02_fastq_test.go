package props

// C02: FASTQ records survive write -> read; malformed records are rejected.

import (
	"bytes"
	"fmt"
	"testing"

	"github.com/fluhus/biostuff/formats/fastq"
	"pgregory.net/rapid"
	"verif/harness/internal/gen"
)

type FastqRec struct {
	Name  gen.B    `json:"name"`
	Seq   gen.Blob `json:"seq"`
	Quals gen.Blob `json:"quals"`
}

// FqCorruption damages record K of an otherwise valid file.
//
//	at     the name line becomes Bytes+name, forced not to start with '@'
//	noplus the '+' line is removed (the quality line is forced not to start with '+')
//	plus   the '+' line is replaced by Bytes, forced not to start with '+'
//	longer the quality line gets 1+Arg extra bytes
//	shorter the quality line loses 1+Arg%len bytes (falls back to longer for empty reads)
//	cut    the file ends Arg%(reclen-2)+1 bytes into record K (strictly inside the record and
//	       not at the offset that only removes the record's final LF)
type FqCorruption struct {
	K     int    `json:"k"`
	Kind  string `json:"kind"`
	Arg   int    `json:"arg"`
	Bytes gen.B  `json:"bytes,omitempty"`
}

type C02Case struct {
	Recs    []FastqRec    `json:"recs"`
	Corrupt *FqCorruption `json:"corrupt,omitempty"`
}

var fastqAlpha = gen.Alphabet{Hostile: []byte("@+>;# \t\x00\x7f\x80\xff\"'!~"), Exclude: []byte("\r\n")}

func genFastqRec(thorough, allowBig bool) *rapid.Generator[FastqRec] {
	bounds := []int{1, 2, 100, 4094, 4095, 4096, 4097}
	if allowBig {
		bounds = append(bounds, 65534, 65535, 65536, 65537, 70000, 100000)
		if thorough {
			bounds = append(bounds, 1<<20, 4<<20, 8<<20)
		}
	}
	length := gen.Lengths(60, bounds...)
	return rapid.Custom(func(t *rapid.T) FastqRec {
		n := length.Draw(t, "len")
		fixed := rapid.Just(n)
		return FastqRec{
			Name:  fastqAlpha.Field(12, 120, 9000).Draw(t, "name"),
			Seq:   fastqAlpha.BlobOf(fixed, 200).Draw(t, "seq"),
			Quals: fastqAlpha.BlobOf(fixed, 200).Draw(t, "quals"),
		}
	})
}

var fqKinds = []string{"at", "noplus", "plus", "longer", "shorter", "cut"}

func genC02(t *rapid.T, thorough bool) C02Case {
	var c C02Case
	corrupt := rapid.Bool().Draw(t, "corrupt")
	n := rapid.SampledFrom([]int{0, 1, 1, 2, 2, 3, 4, 5}).Draw(t, "nrecs")
	if corrupt && n == 0 {
		n = 1
	}
	big := rapid.IntRange(0, 9).Draw(t, "big") == 0
	c.Recs = rapid.SliceOfN(genFastqRec(thorough, big), n, n).Draw(t, "recs")
	if corrupt {
		c.Corrupt = &FqCorruption{
			K:     rapid.IntRange(0, n-1).Draw(t, "k"),
			Kind:  rapid.SampledFrom(fqKinds).Draw(t, "kind"),
			Arg:   rapid.OneOf(rapid.IntRange(0, 3), rapid.IntRange(0, 100000)).Draw(t, "arg"),
			Bytes: fastqAlpha.Bytes(0, 5).Draw(t, "bytes"),
		}
	}
	return c
}

func fastqText(name, seq, quals []byte) []byte {
	var b bytes.Buffer
	b.Grow(len(name) + len(seq) + len(quals) + 6)
	b.WriteByte('@')
	b.Write(name)
	b.WriteByte('\n')
	b.Write(seq)
	b.WriteString("\n+\n")
	b.Write(quals)
	b.WriteByte('\n')
	return b.Bytes()
}

// corruptFastq renders record k damaged as described; cut=true means the file ends with it.
func corruptFastq(r FastqRec, seq, quals []byte, cr *FqCorruption) (text []byte, cut bool) {
	name := []byte(r.Name)
	switch cr.Kind {
	case "at":
		line := append(bytes.Clone(cr.Bytes), name...)
		if len(line) > 0 && line[0] == '@' {
			line = append([]byte("x"), line...)
		}
		return append(append(line, '\n'), fastqText(nil, seq, quals)[2:]...), false
	case "noplus":
		q := bytes.Clone(quals)
		if len(q) > 0 && q[0] == '+' {
			q[0] = '!'
		}
		var b bytes.Buffer
		b.WriteByte('@')
		b.Write(name)
		b.WriteByte('\n')
		b.Write(seq)
		b.WriteByte('\n')
		b.Write(q)
		b.WriteByte('\n')
		return b.Bytes(), false
	case "plus":
		line := bytes.Clone(cr.Bytes)
		if len(line) > 0 && line[0] == '+' {
			line = append([]byte("x"), line...)
		}
		var b bytes.Buffer
		b.WriteByte('@')
		b.Write(name)
		b.WriteByte('\n')
		b.Write(seq)
		b.WriteByte('\n')
		b.Write(line)
		b.WriteByte('\n')
		b.Write(quals)
		b.WriteByte('\n')
		return b.Bytes(), false
	case "shorter":
		if len(quals) > 0 {
			drop := 1 + cr.Arg%len(quals)
			return fastqText(name, seq, quals[:len(quals)-drop]), false
		}
		fallthrough
	case "longer":
		extra := bytes.Repeat([]byte("I"), 1+cr.Arg%50)
		return fastqText(name, seq, append(bytes.Clone(quals), extra...)), false
	case "cut":
		full := fastqText(name, seq, quals)
		// valid offsets: 1 .. len(full)-2 (without its last byte the record is still complete: an
		// unterminated last line) - except when the qualities are empty: then dropping the last
		// byte removes the fourth line altogether
		n := len(full) - 2
		if len(quals) == 0 {
			n++
		}
		off := 1 + cr.Arg%n
		return full[:off], true
	}
	return fastqText(name, seq, quals), false
}

func checkC02(c C02Case, o *Obs) error {
	seqs := make([][]byte, len(c.Recs))
	quals := make([][]byte, len(c.Recs))
	bigRead := false
	for i, r := range c.Recs {
		seqs[i], quals[i] = r.Seq.Bytes(), r.Quals.Bytes()
		if len(seqs[i]) != len(quals[i]) {
			return nil // outside the domain (malformed replay file)
		}
		bigRead = bigRead || len(seqs[i]) >= 4096
		o.ClassIf(len(seqs[i]) >= 65536, "read>=64KiB")
		o.ClassIf(len(seqs[i]) >= 1<<20, "read>=1MiB")
		o.ClassIf(len(seqs[i]) == 0, "empty read")
		o.ClassIf(len(r.Name) == 0, "empty name")
	}

	if c.Corrupt == nil {
		o.Class("roundtrip")
		o.NT = len(c.Recs) >= 2 || bigRead
		var all bytes.Buffer
		var keeper marshalKeeper
		var fields [][]byte
		for i, r := range c.Recs {
			fields = append(fields, r.Name, seqs[i], quals[i])
		}
		ar := newArena(fields...)
		for i, r := range c.Recs {
			fq := &fastq.Fastq{Name: ar.field(3 * i), Sequence: ar.field(3*i + 1), Quals: ar.field(3*i + 2)}
			var w bytes.Buffer
			if err := fq.Write(&w); err != nil {
				return fmt.Errorf("record %d: Write to a buffer failed: %v", i, err)
			}
			if err := samePlain(fq.Write, w.Bytes()); err != nil {
				return fmt.Errorf("record %d: %v", i, err)
			}
			if err := writeAfterFailure(fq.Write, w.Bytes()); err != nil {
				return fmt.Errorf("record %d: %v", i, err)
			}
			var mt []byte
			var merr error
			if p := catch(func() { mt, merr = fq.MarshalText() }); p != nil || merr != nil {
				return fmt.Errorf("record %d: MarshalText failed: panic=%v err=%v", i, p, merr)
			}
			if !bytes.Equal(mt, w.Bytes()) {
				return fmt.Errorf("record %d: MarshalText %s differs from Write %s", i, gen.Abbrev(mt), gen.Abbrev(w.Bytes()))
			}
			if want := fastqText(r.Name, seqs[i], quals[i]); !bytes.Equal(mt, want) {
				return fmt.Errorf("record %d: written as %s, want exactly four lines %s", i, gen.Abbrev(mt), gen.Abbrev(want))
			}
			if !bytes.Equal(fq.Name, r.Name) || !bytes.Equal(fq.Sequence, seqs[i]) || !bytes.Equal(fq.Quals, quals[i]) {
				return fmt.Errorf("record %d: writer modified the record", i)
			}
			all.Write(mt)
			keeper.keep(fmt.Sprintf("record %d", i), mt)
		}
		(&fastq.Fastq{Name: []byte("another record"), Sequence: []byte("ACGTACGTAC"), Quals: []byte("IIIIIJJJJJ")}).MarshalText()
		if err := keeper.verify(); err != nil {
			return err
		}
		if err := ar.verify(); err != nil {
			return err
		}
		items, err := readFastqItems(all.Bytes(), len(c.Recs)+4)
		if err != nil {
			return err
		}
		if len(items) != len(c.Recs) {
			return fmt.Errorf("read %d items, wrote %d records (first extra/err: %v)", len(items), len(c.Recs), firstErr(items))
		}
		for i := range c.Recs {
			if err := sameFastq(items[i], c.Recs[i].Name, seqs[i], quals[i], i); err != nil {
				return err
			}
		}
		// A consumer owns the records it received: modifying them in place while iterating
		// must not affect the records that follow.
		i := 0
		for fq, err := range fastq.Reader(bytes.NewReader(all.Bytes())) {
			if err != nil || i >= len(c.Recs) {
				return fmt.Errorf("second pass: item %d: unexpected item (error %v)", i, err)
			}
			if err := sameFastq(fqItem{fq, nil}, c.Recs[i].Name, seqs[i], quals[i], i); err != nil {
				return fmt.Errorf("after the consumer modified the records it received earlier in the same pass: %v", err)
			}
			// appending to one field of a record must not reach the others
			seqBefore, qualBefore := bytes.Clone(fq.Sequence), bytes.Clone(fq.Quals)
			fq.Name = append(fq.Name, "/1"...)
			if !bytes.Equal(fq.Sequence, seqBefore) || !bytes.Equal(fq.Quals, qualBefore) {
				return fmt.Errorf("record %d: appending to the Name of a record the reader yielded changed its Sequence or Quals (the fields share storage)", i)
			}
			fq.Sequence = append(fq.Sequence, "N"...)
			if !bytes.Equal(fq.Quals, qualBefore) {
				return fmt.Errorf("record %d: appending to the Sequence of a record the reader yielded changed its Quals (the fields share storage)", i)
			}
			for _, fld := range []*[]byte{&fq.Name, &fq.Sequence, &fq.Quals} {
				for j := range *fld {
					(*fld)[j] ^= 0x5a
				}
				*fld = append(*fld, "scribble"...)
			}
			i++
		}
		if i != len(c.Recs) {
			return fmt.Errorf("second pass yields %d records, want %d", i, len(c.Recs))
		}
		return nil
	}

	cr := c.Corrupt
	if len(c.Recs) == 0 {
		return nil
	}
	k := ((cr.K % len(c.Recs)) + len(c.Recs)) % len(c.Recs)
	o.Class("corrupt:" + cr.Kind)
	o.ClassIf(k >= 1, "k>=1")
	o.NT = k >= 1
	var text bytes.Buffer
	for i := 0; i < len(c.Recs); i++ {
		if i == k {
			bad, cut := corruptFastq(c.Recs[i], seqs[i], quals[i], cr)
			text.Write(bad)
			if cut {
				break
			}
			continue
		}
		text.Write(fastqText(c.Recs[i].Name, seqs[i], quals[i]))
	}
	items, err := readFastqItems(text.Bytes(), len(c.Recs)+6)
	if err != nil {
		return err
	}
	if len(items) < k+1 {
		return fmt.Errorf("corruption %+v of record %d: reader ended after %d items without reporting an error", *cr, k, len(items))
	}
	for i := 0; i < k; i++ {
		if err := sameFastq(items[i], c.Recs[i].Name, seqs[i], quals[i], i); err != nil {
			return fmt.Errorf("corruption %+v of record %d: preceding %v", *cr, k, err)
		}
	}
	if items[k].err == nil {
		return fmt.Errorf("corruption %+v of record %d: item %d is a record (name %s, %d bases), want an error", *cr, k, k, gen.Abbrev(items[k].rec.Name), len(items[k].rec.Sequence))
	}
	// "never a fabricated record": whatever follows the error item, a record item must be one of
	// the records of the file (later records may or may not be delivered)
	for i := k + 1; i < len(items); i++ {
		if items[i].err != nil || items[i].rec == nil {
			continue
		}
		genuine := false
		for j := range c.Recs {
			if sameFastq(items[i], c.Recs[j].Name, seqs[j], quals[j], j) == nil {
				genuine = true
				break
			}
		}
		if !genuine {
			return fmt.Errorf("corruption %+v of record %d: after the error the reader yields a fabricated record (name %s, sequence %s, qualities %s)", *cr, k,
				gen.Abbrev(items[i].rec.Name), gen.Abbrev(items[i].rec.Sequence), gen.Abbrev(items[i].rec.Quals))
		}
	}
	return nil
}

type fqItem struct {
	rec *fastq.Fastq
	err error
}

func firstErr(items []fqItem) error {
	for _, it := range items {
		if it.err != nil {
			return it.err
		}
	}
	return nil
}

func readFastqItems(data []byte, limit int) ([]fqItem, error) {
	var items []fqItem
	var perr any
	perr = catch(func() {
		for fq, err := range fastq.Reader(bytes.NewReader(data)) {
			items = append(items, fqItem{fq, err})
			if len(items) > limit {
				break
			}
		}
	})
	if perr != nil {
		return nil, fmt.Errorf("fastq.Reader panicked: %v", perr)
	}
	if len(items) > limit {
		return nil, fmt.Errorf("fastq.Reader yields more than %d items for an input of fewer records", limit)
	}
	return items, nil
}

func sameFastq(it fqItem, name, seq, quals []byte, i int) error {
	if it.err != nil {
		return fmt.Errorf("record %d: reader reports error %v", i, it.err)
	}
	if it.rec == nil {
		return fmt.Errorf("record %d: nil record without error", i)
	}
	if !bytes.Equal(it.rec.Name, name) {
		return fmt.Errorf("record %d: name %s, want %s", i, gen.Abbrev(it.rec.Name), gen.Abbrev(name))
	}
	if !bytes.Equal(it.rec.Sequence, seq) {
		return fmt.Errorf("record %d: sequence %s (len %d), want %s (len %d)", i, gen.Abbrev(it.rec.Sequence), len(it.rec.Sequence), gen.Abbrev(seq), len(seq))
	}
	if !bytes.Equal(it.rec.Quals, quals) {
		return fmt.Errorf("record %d: qualities %s (len %d), want %s (len %d)", i, gen.Abbrev(it.rec.Quals), len(it.rec.Quals), gen.Abbrev(quals), len(quals))
	}
	return nil
}

func exhaustiveC02(thorough bool, emit func(C02Case) bool) {
	mk := func(name, seq, quals string) FastqRec {
		return FastqRec{Name: gen.B(name), Seq: gen.Lit([]byte(seq)), Quals: gen.Lit([]byte(quals))}
	}
	files := [][]FastqRec{
		{mk("r1", "ACGT", "IIII"), mk("r2 x", "GG", "+@"), mk("", "", ""), mk("@r4", "A", "@")},
		{mk("a", "", ""), mk("b", "+", "+"), mk("c", "@@", "@@")},
		{mk("+", "ACGTACGT", "!!!!!!!!"), mk("z", "N", "~")},
		{mk("only", "ACG", "IJK")},
	}
	// round trips of the fixed files and of single records with boundary lengths
	for _, f := range files {
		if !emit(C02Case{Recs: f}) {
			return
		}
	}
	// a read set: thousands of short reads, all different, far more data in total than any
	// internal block (the caller keeps every record)
	{
		var many []FastqRec
		for i := 0; i < 4000; i++ {
			seq := realDNA(20+i%131, i, true, false)
			q := bytes.Repeat([]byte{byte('!' + i%94)}, len(seq))
			many = append(many, FastqRec{Name: gen.B(fmt.Sprintf("M01234:56:000000000-ABCDE:1:1101:%d:1332 1:N:0:1", i)), Seq: gen.Lit(seq), Quals: gen.Lit(q)})
		}
		if !emit(C02Case{Recs: many}) {
			return
		}
	}
	lens := []int{0, 1, 2, 4094, 4095, 4096, 4097, 65535, 65536, 65537, 70000, 1<<20 + 1, 2 << 20}
	if thorough {
		lens = append(lens, 1<<20, 4<<20)
	}
	for _, n := range lens {
		r := FastqRec{Name: gen.B("big"), Seq: gen.Blob{Unit: gen.B("ACGTN"), Reps: n / 5, Tail: gen.B("ACGTN"[:n%5])},
			Quals: gen.Blob{Unit: gen.B("!I~+@"), Reps: n / 5, Tail: gen.B("!I~+@"[:n%5])}}
		if !emit(C02Case{Recs: []FastqRec{mk("first", "AC", "II"), r, mk("last", "T", "#")}}) {
			return
		}
	}
	// multi-byte tokens at the start and inside of every field, first and later records
	// a delimiter next to every other byte, inside and across machine words of a name and of
	// the qualities
	if !bytePairFields("@+>", "\r\n", func(v gen.B) bool {
		return emit(C02Case{Recs: []FastqRec{{Name: v, Seq: gen.Lit([]byte("ACGTACGTACGTACGT")), Quals: gen.Lit(v)}, mk("plain", "AC", "II")}})
	}) {
		return
	}
	// twin records: fields of equal length that differ in one byte, in one stream
	if !twinFields(func(a, b gen.B) bool {
		r := func(n, q, u gen.B) FastqRec { return FastqRec{Name: n, Seq: gen.Lit(q), Quals: gen.Lit(u)} }
		return emit(C02Case{Recs: []FastqRec{r(a, a, a), r(a, a, b), r(b, a, a), r(a, b, a), r(a, b, b), r(a, a, a)}})
	}) {
		return
	}
	for _, tok := range gen.HostileTokens {
		for pos := 0; pos < 3; pos++ {
			val := append(append(gen.B{}, tok...), 'x')
			if pos == 1 {
				val = append(append(gen.B{'x'}, tok...), 'y')
			}
			if pos == 2 {
				val = append(gen.B{}, tok...) // the token is the whole field
			}
			if bytes.ContainsAny(val, "\r\n") {
				continue
			}
			r := FastqRec{Name: val, Seq: gen.Lit(val), Quals: gen.Lit(val)}
			if !emit(C02Case{Recs: []FastqRec{r, mk("plain", "AC", "II"), r}}) {
				return
			}
		}
	}
	// every (record, kind) and every truncation offset
	for _, f := range files {
		for k := range f {
			for _, kind := range fqKinds[:5] {
				for _, bs := range []string{"", "x", ">", "+", "@"} {
					for arg := 0; arg < 3; arg++ {
						if !emit(C02Case{Recs: f, Corrupt: &FqCorruption{K: k, Kind: kind, Arg: arg, Bytes: gen.B(bs)}}) {
							return
						}
					}
				}
			}
			reclen := len(f[k].Name) + 2*f[k].Seq.Len() + 6
			for off := 0; off < reclen-1; off++ {
				if !emit(C02Case{Recs: f, Corrupt: &FqCorruption{K: k, Kind: "cut", Arg: off}}) {
					return
				}
			}
		}
	}
}

func propC02() Prop[C02Case] {
	return Prop[C02Case]{ID: "C02", Gen: genC02, Exhaustive: exhaustiveC02, Check: checkC02}
}

func TestC02(t *testing.T) { Run(t, propC02()) }

func FuzzGenC02(f *testing.F) { RunFuzz(f, propC02()) }

func TestRaceC02(t *testing.T) { RunConcurrent(t, propC02(), 4) }
