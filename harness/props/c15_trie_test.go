package props

// C15: the trie behaves as a set of (maximal) sequences under any history of updates.
// Model-based: the case is the operation list; the check interprets it against the
// implementation and the reference model in lock-step and compares observations after every step.

import (
	"bytes"
	"encoding/json"
	"errors"
	"fmt"
	"slices"
	"sort"
	"strings"
	"testing"

	"github.com/fluhus/biostuff/trie"
	"pgregory.net/rapid"
	"verif/harness/internal/gen"
)

// TrieOp is one step. Ops that refer to current members ("delprefix", "addext", "addprefix")
// carry indices that the interpreter resolves against the model, so the case stays a pure value.
type TrieOp struct {
	Op  string `json:"op"` // add | del | delprefix | addext | addprefix | json | addall (S + every byte value) | addmany (S + each of the first Idx byte values from Cut) | delmany (all of those except the Cut-th) | addbulk / delbulk (Idx three-byte keys below S; every second one deleted)
	S   gen.B  `json:"s,omitempty"`
	Idx int    `json:"idx,omitempty"`
	Cut int    `json:"cut,omitempty"`
}

type C15Case struct {
	Alphabet gen.B    `json:"alphabet"` // letters used for the Has probes
	Ops      []TrieOp `json:"ops"`
	Rebuild  bool     `json:"rebuild,omitempty"` // continue on a JSON-rebuilt trie after every step
}

// trieModel is the reference: the set M of maximal sequences (members), plus, for speed, the
// number of members that have each string as a prefix.
type trieModel struct {
	members map[string]struct{}
	pref    map[string]int
}

func newTrieModel() *trieModel {
	return &trieModel{members: map[string]struct{}{}, pref: map[string]int{}}
}

func (m *trieModel) size() int { return len(m.members) }

func (m *trieModel) hasPrefix(b string) bool { // is b a prefix of a member (or empty)?
	return b == "" || m.pref[b] > 0
}

func (m *trieModel) insert(x string) {
	m.members[x] = struct{}{}
	for i := 1; i <= len(x); i++ {
		m.pref[x[:i]]++
	}
}

func (m *trieModel) remove(x string) {
	delete(m.members, x)
	for i := 1; i <= len(x); i++ {
		if m.pref[x[:i]]--; m.pref[x[:i]] == 0 {
			delete(m.pref, x[:i])
		}
	}
}

func (m *trieModel) add(b string) (absorbed, already bool) {
	if b == "" {
		return false, false
	}
	if m.hasPrefix(b) {
		return false, true
	}
	// members that are proper prefixes of b are absorbed
	for i := 1; i < len(b); i++ {
		if _, ok := m.members[b[:i]]; ok {
			m.remove(b[:i])
			absorbed = true
		}
	}
	m.insert(b)
	return absorbed, false
}

func (m *trieModel) del(b string) bool {
	if m.pref[b] == 0 {
		return false
	}
	for x := range m.members {
		if strings.HasPrefix(x, b) {
			m.remove(x)
		}
	}
	return true
}

func (m *trieModel) longest() int {
	n := 0
	for x := range m.members {
		n = max(n, len(x))
	}
	return n
}

// abbrevHist shortens the descriptions of operations with very long operands.
func abbrevHist(hist []string) []string {
	out := make([]string, len(hist))
	for i, h := range hist {
		if len(h) > 200 {
			h = fmt.Sprintf("%s…(%d bytes)", h[:100], len(h))
		}
		out[i] = h
	}
	return out
}

func (m *trieModel) sorted() []string {
	out := make([]string, 0, len(m.members))
	for x := range m.members {
		out = append(out, x)
	}
	sort.Strings(out)
	return out
}

func genC15(t *rapid.T, thorough bool) C15Case {
	var c C15Case
	maxSteps := 60
	if thorough {
		maxSteps = 200
	}
	alpha := rapid.SampledFrom([]string{"ab", "abc", "ab\x00", "abcde", "\x00\xff", "a\xffb\x80"}).Draw(t, "alphabet")
	c.Alphabet = gen.B(alpha)
	str := func(lo, hi int) *rapid.Generator[gen.B] {
		return rapid.Custom(func(t *rapid.T) gen.B {
			if rapid.IntRange(0, 19).Draw(t, "anybytes") == 0 {
				return gen.B(rapid.SliceOfN(rapid.Byte(), lo, hi).Draw(t, "raw"))
			}
			return gen.B(rapid.SliceOfN(rapid.SampledFrom([]byte(alpha)), lo, hi).Draw(t, "s"))
		})
	}
	n := rapid.OneOf(rapid.IntRange(1, 8), rapid.IntRange(1, maxSteps)).Draw(t, "steps")
	kinds := []string{"add", "add", "add", "del", "del", "delprefix", "delprefix", "addext", "addprefix", "json", "addempty"}
	// about one history in thirty contains one step that gives a node a child for every byte value
	// (rapid's integer generators favour small values, so the rare choice sits mid-range)
	fullAt := -1
	if rapid.IntRange(0, 59).Draw(t, "withFullNode") == 31 {
		fullAt = rapid.IntRange(0, n-1).Draw(t, "fullAt")
	}
	longAt := -1
	if rapid.IntRange(0, 9).Draw(t, "withLongKey") == 5 {
		longAt = rapid.IntRange(0, n-1).Draw(t, "longAt")
	}
	for i := 0; i < n; i++ {
		op := TrieOp{Op: rapid.SampledFrom(kinds).Draw(t, "op")}
		if i == fullAt {
			op = TrieOp{Op: "addall", S: str(0, 2).Draw(t, "prefix")}
		}
		if i == fullAt+1 && fullAt >= 0 && i < n {
			// the node with many children is shrunk again, down to one child
			prev := c.Ops[len(c.Ops)-1]
			op = TrieOp{Op: "delmany", S: prev.S, Idx: 256, Cut: rapid.IntRange(0, 255).Draw(t, "keep")}
			c.Ops = append(c.Ops, op)
			continue
		}
		if i == longAt {
			// a key much longer than any fixed-size traversal stack
			n := rapid.SampledFrom([]int{15, 16, 17, 31, 32, 33, 63, 64, 65, 130, 300}).Draw(t, "longLen")
			unit := str(1, 3).Draw(t, "longUnit")
			op = TrieOp{Op: "add", S: gen.B(bytes.Repeat(unit, n/len(unit)+1)[:n])}
		}
		switch op.Op {
		case "add":
			op.S = str(1, 6).Draw(t, "s")
		case "addempty":
			op.Op, op.S = "add", nil
		case "del":
			op.S = str(1, 4).Draw(t, "s")
		case "delprefix", "addprefix":
			op.Idx = rapid.IntRange(0, 30).Draw(t, "idx")
			op.Cut = rapid.OneOf(rapid.IntRange(0, 8), rapid.IntRange(0, 400)).Draw(t, "cut")
		case "addext":
			op.Idx = rapid.IntRange(0, 30).Draw(t, "idx")
			op.S = str(1, 3).Draw(t, "ext")
		}
		c.Ops = append(c.Ops, op)
	}
	c.Rebuild = rapid.IntRange(0, 7).Draw(t, "rebuild") == 0
	return c
}

func trieMembers(tr *trie.Trie, limit int) ([]string, error) {
	var out []string
	var perr any
	perr = catch(func() {
		tr.ForEach(func(b []byte) bool {
			out = append(out, string(b)) // copy: the slice may be overwritten
			return len(out) <= limit
		})
	})
	if perr != nil {
		return nil, fmt.Errorf("ForEach panicked: %v", perr)
	}
	sort.Strings(out)
	return out, nil
}

// observeTrie compares every observation of tr with the model.
func observeTrie(tr *trie.Trie, m *trieModel, alphabet []byte, what string) error {
	members := m.sorted()
	// a traversal abandoned after its first item leaves nothing behind for the next one
	if len(members) >= 2 {
		if p := catch(func() { tr.ForEach(func([]byte) bool { return false }) }); p != nil {
			return fmt.Errorf("%s: ForEach stopped after its first item panicked: %v", what, p)
		}
	}
	total := 0
	for _, x := range members {
		total += len(x)
	}
	if len(members) >= 1 && total <= 4096 {
		// a callback that panics (the caller recovers, as a request handler does): the trie is as
		// usable afterwards as before - the history goes on with Add and Delete
		catch(func() {
			tr.ForEach(func([]byte) bool { panic("the callback gives up") })
		})
		// callbacks that append to the slice they are handed (w.Write(append(b, '\n'))), in two
		// traversals in a row
		for pass := 0; pass < 2; pass++ {
			n := 0
			if p := catch(func() {
				tr.ForEach(func(b []byte) bool {
					_ = append(b, "\n#"...)
					n++
					return n <= len(members)+4
				})
			}); p != nil {
				return fmt.Errorf("%s: ForEach with a callback that appends to its argument panicked: %v", what, p)
			}
			if n != len(members) {
				return fmt.Errorf("%s: ForEach with a callback that appends to its argument reports %d items (traversal %d), the trie has %d members", what, n, pass+1, len(members))
			}
		}
	}
	got, err := trieMembers(tr, len(members)+4)
	if err != nil {
		return fmt.Errorf("%s: %v", what, err)
	}
	if len(got) != len(members) {
		return fmt.Errorf("%s: ForEach reports %q, want the members %q", what, got, members)
	}
	for i := range got {
		if got[i] != members[i] {
			return fmt.Errorf("%s: ForEach reports %q, want the members %q", what, got, members)
		}
	}
	// A traversal started from inside the callback of another one (and Has called from it):
	// traversals only read the trie, so both report every member exactly once.
	if len(members) >= 2 {
		var outer []string
		var nerr error
		if p := catch(func() {
			tr.ForEach(func(b []byte) bool {
				outer = append(outer, string(b))
				if len(outer) == 1 || len(outer) == len(members)/2+1 {
					if !tr.Has(b) {
						nerr = fmt.Errorf("%s: Has(%q) is false inside the ForEach callback that reports %q", what, b, b)
						return false
					}
					inner, err := trieMembers(tr, len(members)+4)
					if err != nil {
						nerr = fmt.Errorf("%s: a ForEach started inside a ForEach callback: %v", what, err)
						return false
					}
					if !slices.Equal(inner, members) {
						nerr = fmt.Errorf("%s: a ForEach started inside a ForEach callback reports %q, want the members %q", what, inner, members)
						return false
					}
					if string(b) != outer[len(outer)-1] {
						nerr = fmt.Errorf("%s: the slice passed to the outer ForEach callback changed from %q to %q while an inner ForEach ran", what, outer[len(outer)-1], b)
						return false
					}
				}
				return len(outer) <= len(members)+4
			})
		}); p != nil {
			return fmt.Errorf("%s: ForEach with a nested ForEach in its callback panicked: %v", what, p)
		}
		if nerr != nil {
			return nerr
		}
		sort.Strings(outer)
		if !slices.Equal(outer, members) {
			return fmt.Errorf("%s: a ForEach whose callback runs another ForEach reports %q, want the members %q", what, outer, members)
		}
	}
	probe := func(x string) error {
		want := m.hasPrefix(x)
		if h := tr.Has([]byte(x)); h != want {
			return fmt.Errorf("%s: Has(%q) = %v, want %v (members %q)", what, x, h, want, members)
		}
		return nil
	}
	// all strings up to length 3 over the alphabet (alphabets are small)
	var rec func(prefix string, depth int) error
	rec = func(prefix string, depth int) error {
		if err := probe(prefix); err != nil {
			return err
		}
		if depth == 0 {
			return nil
		}
		for _, a := range alphabet {
			if err := rec(prefix+string([]byte{a}), depth-1); err != nil {
				return err
			}
		}
		return nil
	}
	depth := 3
	if len(alphabet) > 3 {
		depth = 2
	}
	if err := rec("", depth); err != nil {
		return err
	}
	for _, x := range members {
		for i := 1; i <= len(x); i++ {
			if err := probe(x[:i]); err != nil {
				return err
			}
		}
		for _, a := range append([]byte{'~'}, alphabet...) {
			if err := probe(x + string([]byte{a})); err != nil {
				return err
			}
		}
	}
	return nil
}

// errKnownC15: the listed open finding c15-json-depth (KNOWN_FINDINGS): encoding/json refuses
// documents nested deeper than 10000 levels, the JSON form nests two levels per byte of a
// member, so a trie with a member of 5000 bytes or more has no JSON form at all.
var errKnownC15 = errors.New("known finding C15 json nesting depth")

func rebuildTrie(tr *trie.Trie, direct bool, longest int, receiver ...int) (*trie.Trie, error) {
	var js []byte
	var err error
	if !direct {
		js, err = json.Marshal(tr)
	} else {
		// the json.Marshaler method called directly; its result belongs to the caller and is
		// still the trie's JSON form after another trie has been marshalled
		js, err = tr.MarshalJSON()
		if err == nil {
			other := trie.New()
			other.Add([]byte("zzzzzzzzzzzzzzzzzzzzzzzzzzzzzzzzzzzzzzzz"))
			other.Add([]byte("\x00\xff"))
			if _, oerr := other.MarshalJSON(); oerr != nil {
				return nil, fmt.Errorf("MarshalJSON of another trie failed: %v", oerr)
			}
		}
	}
	if err != nil {
		if longest >= 5000 && strings.Contains(err.Error(), "exceeded max depth") {
			return nil, fmt.Errorf("%w: the longest member has %d bytes and json.Marshal fails: %.120s", errKnownC15, longest, err.Error())
		}
		return nil, fmt.Errorf("json.Marshal(trie) failed: %.300s", err.Error())
	}
	// the receiver: a trie made by New, a zero value (var t trie.Trie), or a *Trie field of a
	// struct that encoding/json allocates itself
	fresh := trie.New()
	jsCopy := bytes.Clone(js)
	mode := 0
	if len(receiver) > 0 {
		mode = receiver[0] % 3
	}
	switch mode {
	case 1:
		fresh = new(trie.Trie)
		fallthrough
	case 0:
		if err := json.Unmarshal(js, fresh); err != nil {
			return nil, fmt.Errorf("json.Unmarshal of %s failed: %.300s", gen.Abbrev(js), err.Error())
		}
	case 2:
		var holder struct {
			N int        `json:"n"`
			T *trie.Trie `json:"t"`
		}
		doc := append(append([]byte(`{"n":7,"t":`), js...), '}')
		if err := json.Unmarshal(doc, &holder); err != nil || holder.T == nil || holder.N != 7 {
			return nil, fmt.Errorf("json.Unmarshal of a struct with a *Trie field holding %s failed: %v", gen.Abbrev(js), err)
		}
		for i := range doc {
			doc[i] = ']'
		}
		fresh = holder.T
	}
	// the input buffer belongs to the caller, who reuses it; the rebuilt trie must not depend on it
	for i := range js {
		js[i] = '}'
	}
	if longest < 4000 {
		again, err := json.Marshal(fresh)
		if err != nil || !bytes.Equal(again, jsCopy) {
			return nil, fmt.Errorf("after the caller overwrote the buffer it had passed to json.Unmarshal, the rebuilt trie marshals to %s (error %v), want %s", gen.Abbrev(again), err, gen.Abbrev(jsCopy))
		}
	}
	return fresh, nil
}

func checkC15(c C15Case, o *Obs) error {
	tr := trie.New()
	m := newTrieModel()
	alphabet := []byte(c.Alphabet)
	if len(alphabet) == 0 {
		alphabet = []byte("ab")
	}
	deletedTrue, ntSeen, wasNonEmpty := false, false, false
	var hist []string
	for step, op := range c.Ops {
		var desc string
		members := m.sorted()
		pick := func() (string, bool) {
			if len(members) == 0 {
				return "", false
			}
			return members[op.Idx%len(members)], true
		}
		switch op.Op {
		case "add", "addext", "addprefix":
			s := string(op.S)
			if op.Op == "addext" {
				base, ok := pick()
				if !ok || len(op.S) == 0 {
					continue
				}
				s = base + string(op.S)
			} else if op.Op == "addprefix" {
				base, ok := pick()
				if !ok {
					continue
				}
				s = base[:op.Cut%len(base)+1]
			}
			desc = fmt.Sprintf("Add(%q)", s)
			arg := []byte(s)
			argCopy := bytes.Clone(arg)
			if p := catch(func() { tr.Add(arg) }); p != nil {
				return fmt.Errorf("step %d %s panicked: %v (history %v)", step, desc, p, hist)
			}
			if !bytes.Equal(arg, argCopy) {
				return fmt.Errorf("step %d %s modified its argument", step, desc)
			}
			// The caller may reuse its buffer: the trie must not depend on it afterwards.
			for i := range arg {
				arg[i] ^= 0x55
			}
			absorbed, already := m.add(s)
			o.ClassIf(absorbed, "add absorbs prefix")
			o.ClassIf(already, "add of existing prefix")
			o.ClassIf(s == "", "add empty")
			if deletedTrue && s != "" {
				ntSeen = true
			}
		case "del", "delprefix":
			s := string(op.S)
			if op.Op == "delprefix" {
				base, ok := pick()
				if !ok {
					continue
				}
				s = base[:op.Cut%len(base)+1]
			}
			if s == "" {
				continue // Delete("") is outside the statement
			}
			desc = fmt.Sprintf("Delete(%q)", s)
			// the last lookups before the Delete are for the proper prefixes of its operand (whatever
			// a lookup remembers must not survive the pruning that follows)
			for _, cut := range []int{len(s) / 2, len(s) - 1} {
				if cut >= 1 {
					if h, want := tr.Has([]byte(s[:cut])), m.hasPrefix(s[:cut]); h != want {
						return fmt.Errorf("step %d: before %s: Has(%q) = %v, want %v (history %v)", step, desc, s[:cut], h, want, abbrevHist(hist))
					}
				}
			}
			var got bool
			// the operand lives in a query buffer of the caller, which is reused for the next queries
			qbuf := make([]byte, 0, len(s)+16)
			qbuf = append(qbuf, s...)
			if p := catch(func() { got = tr.Delete(qbuf) }); p != nil {
				return fmt.Errorf("step %d %s panicked: %v (history %v)", step, desc, p, hist)
			}
			parentBefore := len(s) > 1 && m.hasPrefix(s[:len(s)-1])
			want := m.del(s)
			if got != want {
				return fmt.Errorf("step %d %s returned %v, want %v (history %v)", step, desc, got, want, hist)
			}
			for _, mem := range m.sorted() {
				if len(mem) > cap(qbuf) {
					continue
				}
				q := append(qbuf[:0], mem...) // the same buffer now holds a member
				if !tr.Has(q) {
					return fmt.Errorf("step %d: after %s the caller reused the buffer it had passed to Delete for the query %q: Has = false, want true (history %v)", step, desc, mem, abbrevHist(hist))
				}
				break
			}
			// and the first lookups after it are for the same prefixes and for the operand itself
			for _, cut := range []int{len(s) - 1, len(s) / 2, len(s)} {
				if cut >= 1 {
					if h, w := tr.Has([]byte(s[:cut])), m.hasPrefix(s[:cut]); h != w {
						return fmt.Errorf("step %d: right after %s: Has(%q) = %v, want %v (history %v)", step, desc, s[:cut], h, w, abbrevHist(hist))
					}
				}
			}
			if want {
				deletedTrue = true
				if parentBefore {
					if m.hasPrefix(s[:len(s)-1]) {
						o.Class("delete keeps sibling")
					} else {
						o.Class("delete prunes ancestors")
					}
				}
				if m.size() == 0 && wasNonEmpty {
					o.Class("empty trie reached again")
				}
			} else {
				o.Class("delete of absent")
			}
		case "addmany", "delmany":
			// a node with Idx children (byte values 40, 41, ... wrapping), later shrunk to the
			// Cut-th of them
			cnt := max(1, min(op.Idx, 256))
			keep := ((op.Cut % cnt) + cnt) % cnt
			desc = fmt.Sprintf("%s(%q, %d children, keep child %d)", op.Op, []byte(op.S), cnt, keep)
			for j := 0; j < cnt; j++ {
				key := string(op.S) + string([]byte{byte(40 + j)})
				if op.Op == "addmany" {
					tr.Add([]byte(key + "x"))
					m.add(key + "x")
				} else if j != keep {
					got := tr.Delete([]byte(key))
					if want := m.del(key); got != want {
						return fmt.Errorf("step %d %s: Delete(%q) returned %v, want %v (history %v)", step, desc, key, got, want, abbrevHist(hist))
					}
				}
			}
			o.ClassIf(op.Op == "delmany", "wide node shrunk to one child")
		case "addbulk", "delbulk":
			// Idx three-byte keys below S (41 symbols per position, in an order that is not the
			// sorted one); delbulk deletes every second of them again
			cnt := max(1, min(op.Idx, 41*41*41))
			desc = fmt.Sprintf("%s(%q, %d keys)", op.Op, []byte(op.S), cnt)
			for j := 0; j < cnt; j++ {
				i := (j * 7919) % cnt
				key := string(op.S) + string([]byte{byte(48 + i%41), byte(48 + (i/41)%41), byte(48 + (i/1681)%41)})
				if op.Op == "addbulk" {
					tr.Add([]byte(key))
					m.add(key)
				} else if i%2 == 0 {
					got := tr.Delete([]byte(key))
					if want := m.del(key); got != want {
						return fmt.Errorf("step %d %s: Delete(%q) returned %v, want %v (history %v)", step, desc, key, got, want, abbrevHist(hist))
					}
				}
			}
			o.Class("tens of thousands of members")
		case "addall":
			// a node with a child for every byte value
			desc = fmt.Sprintf("Add(%q+b) for every byte b", []byte(op.S))
			for b := 0; b < 256; b++ {
				s := string(op.S) + string([]byte{byte(b)})
				tr.Add([]byte(s))
				m.add(s)
			}
			o.Class("node with 256 children")
		case "json":
			desc = "JSON-rebuild"
			fresh, err := rebuildTrie(tr, step%2 == 0, m.longest(), step+1)
			if err != nil {
				return fmt.Errorf("step %d: %w (history %v)", step, err, abbrevHist(hist))
			}
			tr = fresh
			if deletedTrue {
				ntSeen = true
				o.Class("json after delete")
			}
		default:
			continue
		}
		hist = append(hist, desc)
		if m.size() > 0 {
			wasNonEmpty = true
		}
		what := fmt.Sprintf("after step %d of history %v", step, abbrevHist(hist))
		if err := observeTrie(tr, m, alphabet, what); err != nil {
			return err
		}
		if m.size() > 20000 && step != len(c.Ops)-1 {
			continue // bulk histories: the JSON form is rebuilt at "json" steps and at the end only
		}
		// A trie rebuilt from the JSON form is indistinguishable.
		fresh, err := rebuildTrie(tr, step%2 == 1, m.longest(), step+len(c.Ops))
		if err != nil {
			return fmt.Errorf("%s: %w", what, err)
		}
		if err := observeTrie(fresh, m, alphabet, what+", on the trie rebuilt from JSON"); err != nil {
			return err
		}
		if c.Rebuild {
			tr = fresh
		}
	}
	o.NT = ntSeen
	o.ClassIf(c.Rebuild, "rebuild every step")
	return nil
}

func exhaustiveC15(thorough bool, emit func(C15Case) bool) {
	// alphabet {a,b}, strings of length <= 3: 15 Add operands (incl. the empty sequence) and 14
	// Delete operands = 29 operations; all histories up to a depth bound.
	var strs []string
	var gens func(p string)
	gens = func(p string) {
		strs = append(strs, p)
		if len(p) == 3 {
			return
		}
		gens(p + "a")
		gens(p + "b")
	}
	gens("")
	var ops []TrieOp
	for _, s := range strs {
		ops = append(ops, TrieOp{Op: "add", S: gen.B(s)})
	}
	for _, s := range strs[1:] {
		ops = append(ops, TrieOp{Op: "del", S: gen.B(s)})
	}
	run := func(depth int, rebuild bool) bool {
		cur := make([]TrieOp, depth)
		var rec func(i int) bool
		rec = func(i int) bool {
			if i == depth {
				return emit(C15Case{Alphabet: gen.B("ab"), Ops: append([]TrieOp(nil), cur...), Rebuild: rebuild})
			}
			for _, op := range ops {
				cur[i] = op
				if !rec(i + 1) {
					return false
				}
			}
			return true
		}
		return rec(0)
	}
	if !run(1, false) || !run(2, false) || !run(2, true) {
		return
	}
	// keys longer than any fixed-size traversal stack, with branches at several depths
	// (255/256/257: a length that no longer fits a byte; 3400 and 4990: deep but still within
	// encoding/json's nesting limit; 5000 and 6000: beyond it - the listed open finding)
	for _, n := range []int{15, 16, 17, 31, 32, 33, 34, 63, 64, 65, 66, 129, 255, 256, 257, 1000, 3400, 4990, 5000, 6000} {
		long := gen.B(bytes.Repeat([]byte("ab"), n/2+1)[:n])
		h := []TrieOp{{Op: "add", S: long}, {Op: "add", S: append(bytes.Clone(long[:n-1]), 'z')}, {Op: "add", S: append(bytes.Clone(long[:n/2]), 'y', 'y')},
			{Op: "add", S: append(bytes.Clone(long), 'q', 'r')}, {Op: "del", S: long[:n-1]}, {Op: "add", S: gen.B("b")}}
		if n >= 1000 {
			// read-sized keys: a shorter history (every observation is quadratic in the key length)
			if !emit(C15Case{Alphabet: gen.B("ab"), Ops: h[:3]}) {
				return
			}
			continue
		}
		if !emit(C15Case{Alphabet: gen.B("ab"), Ops: h}) || !emit(C15Case{Alphabet: gen.B("ab"), Ops: h, Rebuild: true}) {
			return
		}
	}
	// an unbranched run of every length from 1 to 140 edges pruned by one Delete, hanging off the
	// root or off a branching node, with and without something below the deleted prefix
	for n := 1; n <= 140; n++ {
		chain := gen.B(bytes.Repeat([]byte("abcdefg"), n/7+1)[:n])
		for pi, pre := range []string{"", "q", "qrstuvwxyz0123456789qrstuvwxyz012"} {
			cat := func(parts ...string) gen.B { return gen.B(strings.Join(parts, "")) }
			key := cat(pre, string(chain))
			for ti, tail := range []string{"", "XYZ"} {
				h := []TrieOp{{Op: "add", S: cat(string(key), tail)}, {Op: "add", S: cat(pre, "#")}, {Op: "add", S: cat(pre, "#!")}, {Op: "del", S: key}, {Op: "add", S: cat(pre, "%")}}
				if (n+pi+ti)%2 == 0 {
					h = append(h[:1:1], h[3:]...) // nothing else in the trie
				}
				if !emit(C15Case{Alphabet: gen.B("aq#"), Ops: h, Rebuild: n%3 == 0}) {
					return
				}
			}
		}
	}
	// nodes that grow wide (around 16/17 children, and 256) and shrink back to a single child
	for _, cnt := range []int{2, 15, 16, 17, 18, 33, 64, 65, 256} {
		for _, keep := range []int{0, 1, cnt - 1} {
			h := []TrieOp{{Op: "add", S: gen.B("zz")}, {Op: "addmany", S: gen.B("p"), Idx: cnt}, {Op: "delmany", S: gen.B("p"), Idx: cnt, Cut: keep}, {Op: "add", S: gen.B("pq")},
				{Op: "delmany", S: gen.B("p"), Idx: cnt, Cut: keep + 1}, {Op: "addmany", S: gen.B(""), Idx: cnt}, {Op: "delmany", S: gen.B(""), Idx: cnt, Cut: keep}}
			if !emit(C15Case{Alphabet: gen.B("pq("), Ops: h}) {
				return
			}
		}
	}
	// long keys in the order a sorted bulk load produces: a prefix of an existing member, a delete
	// below it, siblings sharing the prefix
	for _, n := range []int{15, 16, 17, 40} {
		l := gen.B(bytes.Repeat([]byte("ab"), n/2+1)[:n])
		cat := func(x gen.B, t string) gen.B { return append(bytes.Clone(x), t...) }
		h := []TrieOp{{Op: "add", S: cat(l, "xx")}, {Op: "add", S: l}, {Op: "del", S: cat(l, "x")}, {Op: "add", S: cat(l, "w")}, {Op: "add", S: cat(l, "xy")},
			{Op: "add", S: cat(l, "wq")}, {Op: "del", S: cat(l, "w")}, {Op: "add", S: l[:n-1]}, {Op: "add", S: cat(l, "a")}}
		if !emit(C15Case{Alphabet: gen.B("abwx"), Ops: h}) || !emit(C15Case{Alphabet: gen.B("abwx"), Ops: h, Rebuild: true}) {
			return
		}
	}
	// more members than a 16-bit counter holds (41^3 = 68921 three-byte keys, and 66000 below a
	// common prefix), half of them deleted again, then ordinary operations
	for _, h := range [][]TrieOp{
		{{Op: "add", S: gen.B("zz")}, {Op: "addbulk", S: gen.B("pre"), Idx: 66000}, {Op: "del", S: gen.B("pre0")}, {Op: "delbulk", S: gen.B("pre"), Idx: 66000}, {Op: "json"}, {Op: "add", S: gen.B("pre")}},
	} {
		if !emit(C15Case{Alphabet: gen.B("01"), Ops: h}) {
			return
		}
	}
	// members that share a prefix of 6..17 bytes and part ways right after it (the 8th, 9th, 16th
	// byte): look-ups along one of them, a delete of the branch, look-ups again, an add below it
	for _, n := range []int{6, 7, 8, 9, 15, 16, 17} {
		pre := gen.B(bytes.Repeat([]byte("ab"), n/2+1)[:n])
		cat := func(t string) gen.B { return append(bytes.Clone(pre), t...) }
		h := []TrieOp{{Op: "add", S: cat("ax")}, {Op: "add", S: cat("by")}, {Op: "del", S: cat("a")}, {Op: "add", S: cat("az")}, {Op: "del", S: cat("b")},
			{Op: "add", S: cat("bx")}, {Op: "del", S: cat("az")}, {Op: "add", S: cat("a")}, {Op: "del", S: pre}, {Op: "add", S: cat("ax")}}
		if !emit(C15Case{Alphabet: gen.B("abxyz"), Ops: h}) || !emit(C15Case{Alphabet: gen.B("abxyz"), Ops: h, Rebuild: true}) {
			return
		}
	}
	// nodes with a child for every byte value
	for _, h := range [][]TrieOp{
		{{Op: "addall"}},
		{{Op: "add", S: gen.B("ab")}, {Op: "addall", S: gen.B("a")}, {Op: "del", S: gen.B("a\x00")}, {Op: "json"}, {Op: "del", S: gen.B("a\xff")}},
		{{Op: "addall", S: gen.B("b")}, {Op: "addall"}, {Op: "del", S: gen.B("b")}, {Op: "add", S: gen.B("\x00\x00")}},
	} {
		if !emit(C15Case{Alphabet: gen.B("ab"), Ops: h}) || !emit(C15Case{Alphabet: gen.B("a\x00"), Ops: h, Rebuild: true}) {
			return
		}
	}
	if !run(3, false) {
		return
	}
	if thorough {
		if !run(3, true) || !run(4, false) {
			return
		}
	}
}

func keyC15(c C15Case) []byte {
	k := append([]byte(c.Alphabet), '|')
	if c.Rebuild {
		k = append(k, 'R')
	}
	for _, op := range c.Ops {
		k = append(k, op.Op[0], op.Op[len(op.Op)-1], byte(op.Idx), byte(op.Cut), byte(len(op.S)))
		k = append(k, op.S...)
	}
	return k
}

func propC15() Prop[C15Case] {
	return Prop[C15Case]{ID: "C15", Gen: genC15, Exhaustive: exhaustiveC15, Check: checkC15, Key: keyC15,
		Known: func(c C15Case, err error) string {
			if errors.Is(err, errKnownC15) {
				return "c15-json-depth"
			}
			return ""
		}}
}

func TestC15(t *testing.T) { Run(t, propC15()) }

func FuzzGenC15(f *testing.F) { RunFuzz(f, propC15()) }

func TestRaceC15(t *testing.T) { RunConcurrent(t, propC15(), 4) }
