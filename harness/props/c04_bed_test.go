package props

// C04: BED lines with 3..12 fields survive write -> read.

import (
	"bytes"
	"fmt"
	"math"
	"slices"
	"testing"

	"github.com/fluhus/biostuff/formats/bed"
	"pgregory.net/rapid"
	"verif/harness/internal/gen"
)

type BedRec struct {
	N           int    `json:"n"`
	Chrom       gen.B  `json:"chrom"`
	ChromStart  int    `json:"chrom_start"`
	ChromEnd    int    `json:"chrom_end"`
	Name        gen.B  `json:"name"`
	Score       int    `json:"score"`
	Strand      string `json:"strand"`
	ThickStart  int    `json:"thick_start"`
	ThickEnd    int    `json:"thick_end"`
	RGB         [3]int `json:"rgb"`
	BlockCount  int    `json:"block_count"`
	BlockSizes  []int  `json:"block_sizes"`
	BlockStarts []int  `json:"block_starts"`
}

type C04Case struct {
	Recs []BedRec `json:"recs"` // all records of a file share recs[0].N
}

var bedFieldAlpha = gen.Alphabet{Hostile: []byte("\"'#@:;, +-.\x00\x7f\x80\xff\\"), Exclude: []byte("\t\r\n")}

func (r BedRec) toBED() *bed.BED {
	return &bed.BED{N: r.N, Chrom: string(r.Chrom), ChromStart: r.ChromStart, ChromEnd: r.ChromEnd, Name: string(r.Name),
		Score: r.Score, Strand: r.Strand, ThickStart: r.ThickStart, ThickEnd: r.ThickEnd,
		ItemRGB:    [3]byte{byte(r.RGB[0]), byte(r.RGB[1]), byte(r.RGB[2])},
		BlockCount: r.BlockCount, BlockSizes: slices.Clone(r.BlockSizes), BlockStarts: slices.Clone(r.BlockStarts)}
}

// inDomain: the statement's domain for a record with N in 3..12.
//
// "block lists consistent with the block count": fields beyond N are read back as zero, so
// for N=12 count == len(sizes) == len(starts) >= 0; for N in {10,11} the lists that are not
// written count as empty, hence count == 0 (and no sizes for N=11). For N<10 the block fields
// are not written at all and may hold anything.
func (r BedRec) inDomain() bool {
	if r.N < 3 || r.N > 12 {
		return true // out-of-range N is its own sub-property
	}
	if bytes.ContainsAny(r.Chrom, "\t\r\n") || (len(r.Chrom) > 0 && r.Chrom[0] == '#') {
		return false
	}
	if r.N >= 4 && bytes.ContainsAny(r.Name, "\t\r\n") {
		return false
	}
	if r.N >= 6 && r.Strand != "+" && r.Strand != "-" && r.Strand != "." && r.Strand != "" {
		return false
	}
	switch {
	case r.N == 12:
		return r.BlockCount >= 0 && len(r.BlockSizes) == r.BlockCount && len(r.BlockStarts) == r.BlockCount
	case r.N == 11:
		return r.BlockCount == 0 && len(r.BlockSizes) == 0
	case r.N == 10:
		return r.BlockCount == 0
	}
	return true
}

func genBedRec(t *rapid.T, n int) BedRec {
	r := BedRec{
		N:          n,
		Chrom:      bedFieldAlpha.Field(8, 80, 9000).Draw(t, "chrom"),
		ChromStart: gen.Ints().Draw(t, "start"),
		ChromEnd:   gen.Ints().Draw(t, "end"),
		Name:       bedFieldAlpha.Field(8, 80, 9000).Draw(t, "name"),
		Score:      gen.Ints().Draw(t, "score"),
		Strand:     rapid.SampledFrom([]string{"+", "-", ".", ""}).Draw(t, "strand"),
		ThickStart: gen.Ints().Draw(t, "thickStart"),
		ThickEnd:   gen.Ints().Draw(t, "thickEnd"),
		RGB:        [3]int{rapid.IntRange(0, 255).Draw(t, "r"), rapid.IntRange(0, 255).Draw(t, "g"), rapid.SampledFrom([]int{0, 1, 7, 8, 9, 10, 77, 255}).Draw(t, "b")},
	}
	if len(r.Chrom) > 0 && r.Chrom[0] == '#' {
		r.Chrom[0] = 'c'
	}
	k := rapid.SampledFrom([]int{0, 0, 1, 2, 3, 7}).Draw(t, "blocks")
	switch {
	case n == 12 || n < 10:
		r.BlockCount = k
		r.BlockSizes = rapid.SliceOfN(gen.Ints(), k, k).Draw(t, "sizes")
		r.BlockStarts = rapid.SliceOfN(gen.Ints(), k, k).Draw(t, "starts")
		if n < 10 && rapid.Bool().Draw(t, "inconsistentUnwritten") {
			r.BlockCount = gen.Ints().Draw(t, "count") // not written, must not matter
		}
	case n == 11:
		r.BlockStarts = rapid.SliceOfN(gen.Ints(), 0, 3).Draw(t, "starts") // not written
	case n == 10:
		r.BlockSizes = rapid.SliceOfN(gen.Ints(), 0, 3).Draw(t, "sizes") // not written
		r.BlockStarts = rapid.SliceOfN(gen.Ints(), 0, 3).Draw(t, "starts")
	}
	return r
}

func genC04(t *rapid.T, thorough bool) C04Case {
	var c C04Case
	if rapid.IntRange(0, 14).Draw(t, "badN") == 0 {
		n := rapid.SampledFrom([]int{math.MinInt, -1, 0, 1, 2, 13, 14, 100, math.MaxInt}).Draw(t, "n")
		c.Recs = []BedRec{genBedRec(t, 12)}
		c.Recs[0].N = n
		return c
	}
	n := rapid.IntRange(3, 12).Draw(t, "n")
	cnt := rapid.SampledFrom([]int{1, 1, 1, 2, 3, 5}).Draw(t, "nrecs")
	for i := 0; i < cnt; i++ {
		c.Recs = append(c.Recs, genBedRec(t, n))
	}
	return c
}

// expectedBED is the record that must be read back: first N fields, zero elsewhere.
func expectedBED(r BedRec) *bed.BED {
	w := &bed.BED{N: r.N, Chrom: string(r.Chrom), ChromStart: r.ChromStart, ChromEnd: r.ChromEnd}
	if r.N > 3 {
		w.Name = string(r.Name)
	}
	if r.N > 4 {
		w.Score = r.Score
	}
	if r.N > 5 {
		w.Strand = r.Strand
	}
	if r.N > 6 {
		w.ThickStart = r.ThickStart
	}
	if r.N > 7 {
		w.ThickEnd = r.ThickEnd
	}
	if r.N > 8 {
		w.ItemRGB = [3]byte{byte(r.RGB[0]), byte(r.RGB[1]), byte(r.RGB[2])}
	}
	if r.N > 9 {
		w.BlockCount = r.BlockCount
	}
	if r.N > 10 {
		w.BlockSizes = r.BlockSizes
	}
	if r.N > 11 {
		w.BlockStarts = r.BlockStarts
	}
	return w
}

func sameBED(got, want *bed.BED) error {
	if got == nil {
		return fmt.Errorf("nil record")
	}
	if got.N != want.N || got.Chrom != want.Chrom || got.ChromStart != want.ChromStart || got.ChromEnd != want.ChromEnd ||
		got.Name != want.Name || got.Score != want.Score || got.Strand != want.Strand || got.ThickStart != want.ThickStart ||
		got.ThickEnd != want.ThickEnd || got.ItemRGB != want.ItemRGB || got.BlockCount != want.BlockCount ||
		!slices.Equal(got.BlockSizes, want.BlockSizes) || !slices.Equal(got.BlockStarts, want.BlockStarts) {
		return fmt.Errorf("got %+v, want %+v", *got, *want)
	}
	return nil
}

type countingWriter struct{ n int }

func (w *countingWriter) Write(p []byte) (int, error) { w.n += len(p); return len(p), nil }

type bedItem struct {
	b   *bed.BED
	err error
}

func readBedItems(data []byte, limit int) ([]bedItem, error) {
	var items []bedItem
	if p := catch(func() {
		for b, err := range bed.Reader(bytes.NewReader(data)) {
			items = append(items, bedItem{b, err})
			if len(items) > limit {
				break
			}
		}
	}); p != nil {
		return nil, fmt.Errorf("bed.Reader panicked: %v", p)
	}
	if len(items) > limit {
		return nil, fmt.Errorf("bed.Reader yields more than %d items", limit)
	}
	return items, nil
}

func checkC04(c C04Case, o *Obs) error {
	if len(c.Recs) == 0 {
		return nil
	}
	n := c.Recs[0].N
	if n < 3 || n > 12 {
		o.Class("N out of range")
		o.NT = true
		b := c.Recs[0].toBED()
		var cw countingWriter
		var werr error
		if p := catch(func() { werr = b.Write(&cw) }); p != nil {
			return fmt.Errorf("Write with N=%d panicked: %v", n, p)
		}
		if werr == nil {
			return fmt.Errorf("Write with N=%d returned nil error", n)
		}
		if cw.n != 0 {
			return fmt.Errorf("Write with N=%d emitted %d bytes before refusing", n, cw.n)
		}
		var mt []byte
		var merr error
		if p := catch(func() { mt, merr = b.MarshalText() }); p != nil {
			return fmt.Errorf("MarshalText with N=%d panicked: %v", n, p)
		}
		if merr == nil {
			return fmt.Errorf("MarshalText with N=%d returned %q and nil error", n, mt)
		}
		return nil
	}
	for _, r := range c.Recs {
		if r.N != n || !r.inDomain() {
			return nil
		}
	}
	o.Class(fmt.Sprintf("N=%d", n))
	o.NT = len(c.Recs) >= 2
	var file bytes.Buffer
	var keeper marshalKeeper
	want := make([]*bed.BED, len(c.Recs))
	for i, r := range c.Recs {
		b := r.toBED()
		want[i] = expectedBED(r)
		if n >= 4 && (len(r.Name) > 0 || r.Score != 0 || r.Strand != "") {
			o.NT = true
		}
		o.ClassIf(n >= 4 && bytes.Contains(r.Name, []byte(`"`)), `name contains "`)
		o.ClassIf(bytes.Contains(r.Chrom, []byte(`"`)), `chrom contains "`)
		o.ClassIf(n >= 4 && len(r.Name) == 0, "empty name")
		o.ClassIf(n >= 6 && r.Strand == "", "empty strand")
		o.ClassIf(n == 12 && r.BlockCount == 0, "k=0")
		o.ClassIf(n == 12 && r.BlockCount >= 2, "k>=2")
		var w bytes.Buffer
		var werr error
		if p := catch(func() { werr = b.Write(&w) }); p != nil || werr != nil {
			return fmt.Errorf("record %d: Write failed: panic=%v err=%v", i, p, werr)
		}
		if err := samePlain(b.Write, w.Bytes()); err != nil {
			return fmt.Errorf("record %d: %v", i, err)
		}
		if err := writeAfterFailure(b.Write, w.Bytes()); err != nil {
			return fmt.Errorf("record %d: %v", i, err)
		}
		mt, merr := b.MarshalText()
		if merr != nil || !bytes.Equal(mt, w.Bytes()) {
			return fmt.Errorf("record %d: MarshalText (%q, %v) differs from Write %q", i, mt, merr, w.Bytes())
		}
		if err := sameBED(b, r.toBED()); err != nil {
			return fmt.Errorf("record %d: writer modified the record: %v", i, err)
		}
		if bytes.Count(mt, []byte("\n")) != 1 || mt[len(mt)-1] != '\n' {
			return fmt.Errorf("record %d: written text is not one line: %q", i, mt)
		}
		if tabs := bytes.Count(mt, []byte("\t")); tabs != n-1 {
			return fmt.Errorf("record %d: written line %q has %d tab-separated fields, want %d", i, mt, tabs+1, n)
		}
		items, err := readBedItems(mt, 3)
		if err != nil {
			return err
		}
		if len(items) != 1 || items[0].err != nil {
			return fmt.Errorf("record %d: line %q read back as %d items (error %v)", i, mt, len(items), firstBedErr(items))
		}
		if err := sameBED(items[0].b, want[i]); err != nil {
			return fmt.Errorf("record %d: line %q read back differently: %v", i, mt, err)
		}
		file.Write(mt)
		keeper.keep(fmt.Sprintf("record %d", i), mt)
	}
	baseBedRec(7).toBED().MarshalText()
	if err := keeper.verify(); err != nil {
		return err
	}
	items, err := readBedItems(file.Bytes(), len(c.Recs)+3)
	if err != nil {
		return err
	}
	if len(items) != len(c.Recs) {
		return fmt.Errorf("file of %d records read back as %d items (error %v)", len(c.Recs), len(items), firstBedErr(items))
	}
	for i, it := range items {
		if it.err != nil {
			return fmt.Errorf("file item %d: error %v", i, it.err)
		}
		if err := sameBED(it.b, want[i]); err != nil {
			return fmt.Errorf("file item %d: %v", i, err)
		}
	}
	// A consumer owns the records it received: modifying them while iterating must not affect
	// the records that follow.
	k := 0
	for b, err := range bed.Reader(bytes.NewReader(file.Bytes())) {
		if err != nil || k >= len(want) {
			return fmt.Errorf("second pass: item %d: unexpected item (error %v)", k, err)
		}
		if err := sameBED(b, want[k]); err != nil {
			return fmt.Errorf("after the consumer modified the records it received earlier in the same pass: record %d: %v", k, err)
		}
		for j := range b.BlockSizes {
			b.BlockSizes[j] = -99
		}
		for j := range b.BlockStarts {
			b.BlockStarts[j] = -99
		}
		b.BlockSizes, b.BlockStarts = append(b.BlockSizes, 7), append(b.BlockStarts, 7)
		b.Chrom, b.N = "scribble", 3
		k++
	}
	if k != len(want) {
		return fmt.Errorf("second pass yields %d records, want %d", k, len(want))
	}
	return nil
}

func firstBedErr(items []bedItem) error {
	for _, it := range items {
		if it.err != nil {
			return it.err
		}
	}
	return nil
}

func baseBedRec(n int) BedRec {
	r := BedRec{N: n, Chrom: gen.B("chr1"), ChromStart: 10, ChromEnd: 20, Name: gen.B("feat"), Score: 150, Strand: "+",
		ThickStart: 11, ThickEnd: 13, RGB: [3]int{50, 100, 150}}
	if n == 12 || n < 10 {
		r.BlockCount, r.BlockSizes, r.BlockStarts = 2, []int{40, 60}, []int{100, 200}
	}
	return r
}

func exhaustiveC04(thorough bool, emit func(C04Case) bool) {
	for _, n := range []int{math.MinInt, -7, -1, 0, 1, 2, 13, 14, 1000, math.MaxInt} {
		r := baseBedRec(12)
		r.N = n
		if !emit(C04Case{Recs: []BedRec{r}}) {
			return
		}
	}
	// a delimiter next to every other byte, inside and across machine words of Chrom and Name
	if !bytePairFields("#\",;:", "\t\r\n", func(v gen.B) bool {
		r := baseBedRec(6)
		r.Chrom, r.Name = v, v
		return emit(C04Case{Recs: []BedRec{r, baseBedRec(6)}})
	}) {
		return
	}
	// twin records: Chrom / Name of equal length that differ in one byte, in one stream
	if !twinFields(func(a, b gen.B) bool {
		mk := func(c, n gen.B) BedRec {
			r := baseBedRec(6)
			r.Chrom, r.Name = c, n
			return r
		}
		return emit(C04Case{Recs: []BedRec{mk(a, a), mk(b, a), mk(a, b), mk(b, b), mk(a, a)}})
	}) {
		return
	}
	// multi-byte tokens (BOM, fmt verbs, gzip magic, NEL/NBSP) at the start and inside of Chrom and
	// Name of the first and of a later record
	for n := 3; n <= 12; n += 3 {
		for _, tok := range gen.HostileTokens {
			for pos := 0; pos < 3; pos++ {
				val := append(append(gen.B{}, tok...), 'x')
				if pos == 1 {
					val = append(append(gen.B{'x'}, tok...), 'y')
				}
				if pos == 2 {
					val = append(gen.B{}, tok...) // the token is the whole field
				}
				r1, r2 := baseBedRec(n), baseBedRec(n)
				r1.Chrom, r2.Name = val, val
				if !emit(C04Case{Recs: []BedRec{r1, r2, r1}}) || !emit(C04Case{Recs: []BedRec{r2, r1}}) {
					return
				}
			}
		}
	}
	// very long fields / lines and many blocks
	for _, n := range []int{4096, 9000, 70000, 1<<21 + 3} {
		r := baseBedRec(12)
		r.Name = gen.B(bytes.Repeat([]byte("n\" "), n/3))
		r.Chrom = gen.B(bytes.Repeat([]byte("c"), n))
		k := n / 8
		r.BlockCount, r.BlockSizes, r.BlockStarts = k, make([]int, k), make([]int, k)
		for i := range r.BlockSizes {
			r.BlockSizes[i], r.BlockStarts[i] = i, 1000000+i
		}
		if !emit(C04Case{Recs: []BedRec{r, baseBedRec(12)}}) {
			return
		}
	}
	for n := 3; n <= 12; n++ {
		// every byte outside TAB/CR/LF first and inside Name and Chrom
		for b := 0; b < 256; b++ {
			if b == '\t' || b == '\r' || b == '\n' {
				continue
			}
			for pos := 0; pos < 2; pos++ {
				val := gen.B{byte(b), 'x'}
				if pos == 1 {
					val = gen.B{'x', byte(b), 'y'}
				}
				r := baseBedRec(n)
				r.Name = val
				r2 := baseBedRec(n)
				if !(b == '#' && pos == 0) {
					r2.Chrom = val
				}
				if !emit(C04Case{Recs: []BedRec{r, r2, baseBedRec(n)}}) {
					return
				}
			}
		}
		// extreme ints, all strands, empty text fields, block-list sizes
		for _, x := range []int{0, -1, math.MaxInt, math.MinInt, math.MaxInt32 + 1} {
			r := baseBedRec(n)
			r.ChromStart, r.ChromEnd, r.Score, r.ThickStart, r.ThickEnd = x, x, x, x, x
			if n == 12 {
				r.BlockSizes, r.BlockStarts = []int{x, -x}, []int{x, x}
			}
			if !emit(C04Case{Recs: []BedRec{r}}) {
				return
			}
		}
		for _, s := range []string{"+", "-", ".", ""} {
			r := baseBedRec(n)
			r.Strand, r.Name, r.Chrom = s, nil, nil
			if !emit(C04Case{Recs: []BedRec{r, r}}) {
				return
			}
		}
		for rgb := 0; rgb < 256; rgb += 5 {
			r := baseBedRec(n)
			r.RGB = [3]int{rgb, 255 - rgb, (rgb * 7) % 256}
			if !emit(C04Case{Recs: []BedRec{r}}) {
				return
			}
		}
		if n == 12 {
			for k := 0; k <= 4; k++ {
				r := baseBedRec(n)
				r.BlockCount, r.BlockSizes, r.BlockStarts = k, make([]int, k), make([]int, k)
				for i := 0; i < k; i++ {
					r.BlockSizes[i], r.BlockStarts[i] = i*10-5, -i
				}
				if !emit(C04Case{Recs: []BedRec{r}}) {
					return
				}
			}
		}
	}
}

func propC04() Prop[C04Case] {
	return Prop[C04Case]{ID: "C04", Gen: genC04, Exhaustive: exhaustiveC04, Check: checkC04}
}

func TestC04(t *testing.T) { Run(t, propC04()) }

func FuzzGenC04(f *testing.F) { RunFuzz(f, propC04()) }

func TestRaceC04(t *testing.T) { RunConcurrent(t, propC04(), 4) }
