package props

// C07: a failing stream is reported, never mistaken for a clean end of data; a failing
// destination writer makes Write return an error. Fault enumeration: for every generated
// input the fault offset is enumerated (exhaustively for small inputs).

import (
	"bufio"
	"bytes"
	"compress/gzip"
	"fmt"
	"io"
	"sort"
	"strings"
	"testing"

	"github.com/fluhus/biostuff/formats/fasta"
	"github.com/fluhus/biostuff/formats/fastq"
	"pgregory.net/rapid"
	"verif/harness/internal/fault"
	"verif/harness/internal/gen"
)

// C07Case: Kind "read": faults injected into the stream of a well-formed text of Format.
// Kind "write": the destination writer of one record's Write fails after every possible
// number of bytes.
type C07Case struct {
	Kind   string     `json:"kind"`
	Format string     `json:"format"`
	Text   StreamText `json:"text,omitempty"`
	Seed   int        `json:"seed,omitempty"` // selects the sampled offsets of large inputs
	// write
	Fasta *FastaRec     `json:"fasta,omitempty"`
	Fastq *FastqRec     `json:"fastq,omitempty"`
	Sam   *SamRec       `json:"sam,omitempty"`
	Bed   *BedRec       `json:"bed,omitempty"`
	Tree  *gen.TreeSpec `json:"tree,omitempty"`
}

func genC07(t *rapid.T, thorough bool) C07Case {
	if rapid.IntRange(0, 2).Draw(t, "write") == 0 {
		c := C07Case{Kind: "write", Format: rapid.SampledFrom([]string{"fasta", "fastq", "sam", "bed", "newick"}).Draw(t, "format")}
		switch c.Format {
		case "fasta":
			r := genFastaRec(false).Draw(t, "rec")
			if r.Seq.Len() > 1000 {
				r.Seq = gen.Lit(r.Seq.Bytes()[:1000])
			}
			c.Fasta = &r
		case "fastq":
			r := genFastqRec(false, false).Draw(t, "rec")
			if r.Seq.Len() > 600 {
				r.Seq, r.Quals = gen.Lit(r.Seq.Bytes()[:600]), gen.Lit(r.Quals.Bytes()[:600])
			}
			c.Fastq = &r
		case "sam":
			r := genSamRec(t)
			c.Sam = &r
		case "bed":
			r := genBedRec(t, rapid.IntRange(3, 12).Draw(t, "n"))
			c.Bed = &r
		case "newick":
			ts := genNewickTree(t, 30, nil)
			c.Tree = &ts
		}
		return c
	}
	c := C07Case{Kind: "read", Format: rapid.SampledFrom(codecNames).Draw(t, "format"), Seed: rapid.IntRange(0, 1<<20).Draw(t, "seed")}
	nrecs := rapid.SampledFrom([]int{2, 2, 3, 4, 6}).Draw(t, "nrecs")
	c.Text = StreamText{Lines: genWellFormedLines(t, c.Format, nrecs)}
	switch rapid.IntRange(0, 7).Draw(t, "malformed") {
	case 0:
		// any input: a near-valid byte string
		c.Text = StreamText{Raw: genNearValid(t, c.Format)}
		return c
	case 1:
		// well-formed lines with line-level damage: blank lines inserted, a line dropped or doubled
		lines := c.Text.Lines
		for e := rapid.IntRange(1, 3).Draw(t, "edits"); e > 0 && len(lines) > 0; e-- {
			i := rapid.IntRange(0, len(lines)-1).Draw(t, "at")
			switch rapid.IntRange(0, 3).Draw(t, "edit") {
			case 0, 1:
				lines = append(lines[:i+1:i+1], append([]gen.B{nil}, lines[i+1:]...)...)
			case 2:
				lines = append(lines[:i:i], lines[i+1:]...)
			default:
				lines = append(lines[:i+1:i+1], lines[i:]...)
			}
		}
		var raw bytes.Buffer
		for _, l := range lines {
			raw.Write(l)
			raw.WriteByte('\n')
		}
		c.Text = StreamText{Raw: raw.Bytes()}
		if len(c.Text.Raw) == 0 {
			c.Text.Raw = gen.B("\n")
		}
		return c
	}
	if rapid.IntRange(0, 7).Draw(t, "big") == 0 {
		blockLen := 0
		for _, l := range c.Text.Lines {
			blockLen += len(l) + 1
		}
		c.Text.Reps = rapid.SampledFrom([]int{4100, 9000, 20000}).Draw(t, "target")/max(blockLen, 1) + 1
	}
	return c
}

type faultMode struct {
	forever, withData bool
	chunk             int
	resume            bool // the stream carries on after the error was returned once
}

var faultModes = []faultMode{
	{false, false, 0, false}, {true, false, 0, false}, {false, true, 0, false}, {true, true, 0, false},
	{false, false, 1, false}, {true, true, 1, false}, {false, true, 7, false}, {true, false, 7, false},
	{false, false, 0, true}, {false, true, 5, true},
}

func checkC07(c C07Case, o *Obs) error {
	o.Class("kind:" + c.Kind)
	o.Class("format:" + c.Format)
	if c.Kind == "write" {
		return checkWriteFaults(c, o)
	}
	codec := codecs[c.Format]
	if codec == nil {
		return nil
	}
	text := c.Text.Render(false)
	if len(text) > 3000 && !c.Text.wellFormed() {
		return nil
	}
	all, over, p := collect(func(cb func(Item) bool) { codec.Reader(bytes.NewReader(text), cb) }, len(text)+16)
	if p != nil || over {
		return fmt.Errorf("%s: fault-free decode panicked (%v) or did not end (input %s)", c.Format, p, gen.Abbrev(text))
	}
	// D: the records of the fault-free decode. For any input - malformed ones too, whose
	// fault-free decode contains error items - a failing stream delivers only leading records of
	// D and reports an error.
	var D []Item
	for i, it := range all {
		if it.Err != nil {
			if c.Text.wellFormed() {
				return fmt.Errorf("%s: fault-free decode of a well-formed input yields an error at item %d: %v (input %s)", c.Format, i, it.Err, gen.Abbrev(text))
			}
			continue
		}
		D = append(D, it)
	}
	o.ClassIf(!c.Text.wellFormed(), "malformed input")
	o.NT = len(D) >= 2 || (!c.Text.wellFormed() && len(all) >= 2)
	// offsets: all of them for small inputs; around line boundaries and buffer refills plus a
	// deterministic sample for large ones
	var offsets []int
	if len(text) <= 700 {
		for k := 0; k <= len(text); k++ {
			offsets = append(offsets, k)
		}
		o.Class("all offsets")
	} else {
		set := map[int]bool{0: true, len(text): true}
		add := func(k int) {
			for d := -3; d <= 3; d++ {
				if k+d >= 0 && k+d <= len(text) {
					set[k+d] = true
				}
			}
		}
		for i, b := range text {
			if b == '\n' && (i < 2000 || i%5 == 0) {
				add(i + 1)
			}
		}
		for k := 4096; k <= len(text); k += 4096 {
			add(k)
		}
		x := uint64(c.Seed)*2654435761 + 12345
		for i := 0; i < 200; i++ {
			x = x*6364136223846793005 + 1442695040888963407
			set[int(x>>33)%(len(text)+1)] = true
		}
		for k := range set {
			offsets = append(offsets, k)
		}
		sort.Ints(offsets)
		o.Class("sampled offsets (large input)")
	}
	if keepTempUntilBatchEnd && len(offsets) > 60 {
		// concurrent-use stage (race detector, ten times slower): a stride through the offsets
		stride := len(offsets)/60 + 1
		var few []int
		for i := c.Seed % stride; i < len(offsets); i += stride {
			few = append(few, offsets[i])
		}
		offsets = few
	}
	// line boundaries, for classification
	boundary := map[int]bool{0: true}
	for i, b := range text {
		if b == '\n' {
			boundary[i+1] = true
		}
	}
	runs := 0
	limit := len(D) + 64
	for _, k := range offsets {
		modes := faultModes
		if len(text) > 700 {
			modes = append(append([]faultMode{}, faultModes[:4]...), faultModes[8])
		}
		for mi, m := range modes {
			runs++
			o.Beat()
			ferr := fault.ErrKinds[(k+mi)%len(fault.ErrKinds)]
			fr := &fault.FailAfter{Data: text, K: k, Forever: m.forever, WithData: m.withData, Chunk: m.chunk, Err: ferr, Resume: m.resume}
			// every third run the failing stream sits behind the caller's own bufio.Reader (which also
			// offers WriteTo, ReadFrom-style bulk paths to whoever looks for them)
			var src io.Reader = fr
			wrapped := (k+mi)%3 == 1
			if wrapped {
				src = bufio.NewReaderSize(fr, 16+(k*7)%4096)
			}
			items, over, p := collect(func(cb func(Item) bool) { codec.Reader(src, cb) }, limit)
			desc := fmt.Sprintf("%s: reader failing with %q after %d of %d bytes (forever=%v, error with data=%v, chunk=%d, stream carries on afterwards=%v, behind the caller's bufio.Reader=%v)", c.Format, ferr, k, len(text), m.forever, m.withData, m.chunk, m.resume, wrapped)
			if p != nil {
				return fmt.Errorf("%s: panic %v (input %s)", desc, p, gen.Abbrev(text))
			}
			if over {
				return fmt.Errorf("%s: the iteration does not end (more than %d items; first items %s)", desc, limit, describeItems(items))
			}
			j, nerr := 0, 0
			for _, it := range items {
				if it.Err != nil {
					nerr++
					// a record handed out together with the error is a delivered record as well
					if it.WithErr == "" {
						continue
					}
					it.Rec = it.WithErr
				}
				if j >= len(D) || it.Rec != D[j].Rec {
					want := "<nothing: the fault-free decode has no more records>"
					if j < len(D) {
						want = D[j].Rec
					}
					return fmt.Errorf("%s: record item %d is %s, but record %d of the fault-free decode is %s (a record built from truncated data?) (input %s)", desc, j, it, j, want, gen.Abbrev(text))
				}
				j++
			}
			if nerr == 0 {
				return fmt.Errorf("%s: the iteration ended after %d records without reporting any error (input %s)", desc, j, gen.Abbrev(text))
			}
		}
		if k > 0 && k < len(text) {
			o.ClassIf(boundary[k], "fault at line boundary")
			o.ClassIf(!boundary[k], "fault mid-line")
		}
		o.ClassIf(k == len(text), "fault at len")
		o.ClassIf(k == 0, "fault at 0")
	}
	o.Count("fault_runs", runs)
	return nil
}

// writeTarget returns the record's Write method and the text it produces on a healthy writer.
func writeTarget(c C07Case) (write func(w io.Writer) error, ok bool) {
	switch {
	case c.Format == "fasta" && c.Fasta != nil:
		f := &fasta.Fasta{Name: c.Fasta.Name, Sequence: c.Fasta.Seq.Bytes()}
		return f.Write, true
	case c.Format == "fastq" && c.Fastq != nil:
		f := &fastq.Fastq{Name: c.Fastq.Name, Sequence: c.Fastq.Seq.Bytes(), Quals: c.Fastq.Quals.Bytes()}
		return f.Write, true
	case c.Format == "sam" && c.Sam != nil:
		if !c.Sam.inDomain() {
			return nil, false
		}
		return c.Sam.toSAM().Write, true
	case c.Format == "bed" && c.Bed != nil:
		if c.Bed.N < 3 || c.Bed.N > 12 {
			return nil, false
		}
		return c.Bed.toBED().Write, true
	case c.Format == "newick" && c.Tree != nil:
		root, _ := buildTree(*c.Tree)
		return root.Write, true
	}
	return nil, false
}

func checkWriteFaults(c C07Case, o *Obs) error {
	write, ok := writeTarget(c)
	if !ok {
		return nil
	}
	var healthy bytes.Buffer
	var err error
	if p := catch(func() { err = write(&healthy) }); p != nil || err != nil {
		return fmt.Errorf("%s: Write to a healthy writer failed: panic=%v err=%v", c.Format, p, err)
	}
	total := healthy.Len()
	o.NT = total >= 2
	runs := 0
	// every number of accepted bytes; for records of several KB: the first and last hundred, the
	// neighbourhood of every multiple of 512 and every 41st in between
	var limits []int
	for k := 0; k <= total+1; k++ {
		if total > 30000 {
			// records beyond 64 KiB: the ends, the neighbourhood of every multiple of 4096, of 64 KiB
			// from either end, and every 4099th in between
			if k <= 20 || k >= total-20 || (k+1)%4096 <= 2 || k%4099 == 0 || k-65536 >= -1 && k-65536 <= 1 || k-(total-65536) >= -1 && k-(total-65536) <= 1 {
				limits = append(limits, k)
			}
			continue
		}
		if total <= 1500 || k <= 100 || k >= total-100 || k%41 == 0 || (k+2)%512 <= 4 {
			limits = append(limits, k)
		}
	}
	for _, k := range limits {
		for mode, short := range []bool{false, true, false} {
			runs++
			o.Beat()
			lw := &fault.LimitedWriter{Limit: k, Short: short, Full: mode == 2}
			var werr error
			if p := catch(func() { werr = write(lw) }); p != nil {
				return fmt.Errorf("%s: Write panicked when the writer fails after %d of %d bytes: %v", c.Format, k, total, p)
			}
			if k < total && werr == nil {
				return fmt.Errorf("%s: Write returned nil although the writer failed after %d of %d bytes (the failing call reports: %s); text %s", c.Format, k, total, []string{"0 bytes", "the bytes it accepted", "all bytes, with the error"}[mode], gen.Abbrev(healthy.Bytes()))
			}
			if k >= total && werr != nil {
				return fmt.Errorf("%s: Write returned %v although the writer accepted all %d bytes (limit %d)", c.Format, werr, total, k)
			}
		}
	}
	// The destination is a bufio.Writer (the usual way to write many records) over a failing
	// writer: a call during which the underlying writer failed reports an error, and so does
	// every later call (the bufio.Writer keeps failing).
	for _, bufSize := range []int{16, 64} {
		for k := 0; k <= 3*total; k += max(1, total/7) {
			lw := &fault.LimitedWriter{Limit: k}
			bw := bufio.NewWriterSize(lw, bufSize)
			for rep := 0; rep < 4; rep++ {
				runs++
				o.Beat()
				var werr error
				if p := catch(func() { werr = write(bw) }); p != nil {
					return fmt.Errorf("%s: Write to a bufio.Writer panicked when the underlying writer fails after %d bytes: %v", c.Format, k, p)
				}
				if lw.Failed && werr == nil {
					return fmt.Errorf("%s: Write number %d to a bufio.Writer (buffer %d bytes) returned nil although the underlying writer had failed after %d bytes, during or before this call; one record is %d bytes: %s", c.Format, rep+1, bufSize, k, total, gen.Abbrev(healthy.Bytes()))
				}
				if !lw.Failed && werr != nil {
					return fmt.Errorf("%s: Write number %d to a bufio.Writer returned %v although the underlying writer has not failed (limit %d, record %d bytes)", c.Format, rep+1, werr, k, total)
				}
			}
		}
	}
	o.Count("writer_fault_runs", runs)
	return nil
}

func exhaustiveC07(thorough bool, emit func(C07Case) bool) {
	// fixed well-formed inputs per format (every offset x every mode is enumerated by the check)
	inputs := map[string][][]string{
		"fasta":  {{">a desc", "ACGT", "AC", ">b", "GGGG", ">c"}, {">x", "A"}},
		"fastq":  {{"@a", "ACGT", "+", "IIII", "@b", "", "+", "", "@c", "T", "+a", "#"}},
		"sam":    {{"@HD\tVN:1", "q1\t0\tr\t1\t2\t3M\t=\t4\t5\tACG\tIII\tXX:i:12345", "q2\t16\tr\t7\t8\t3M\t=\t9\t10\tTTT\tJJJ\tYY:Z:abc\tZZ:f:1.5"}},
		"samh":   {{"@HD\tVN:1", "@SQ\tSN:r", "q1\t0\tr\t1\t2\t3M\t=\t4\t5\tACG\tIII\tXX:i:12345", "q2\t16\tr\t7\t8\t3M\t=\t9\t10\tTTT\tJJJ"}},
		"bed":    {{"chr1\t10\t20\tn1\t5\t+", "chr2\t30\t45\tn2\t7\t-", "# comment", "chr3\t1\t2\tn3\t0\t."}, {"c\t100\t200", "d\t300\t400"}},
		"newick": {{"(a:1,b:2)c;", "((d,e)f,g)h:12.5;", "i;"}, {"(a,(b,c))d;(e)f;"}, {"(a[first],b[&rate=0.5,hpd={0.1,0.2}]:2)c[root]:1;", "(d,e)f;"}},
	}
	for _, f := range codecNames {
		for _, lines := range inputs[f] {
			var ls []gen.B
			for _, l := range lines {
				ls = append(ls, gen.B(l))
			}
			if !emit(C07Case{Kind: "read", Format: f, Text: StreamText{Lines: ls}}) {
				return
			}
			if !emit(C07Case{Kind: "read", Format: f, Text: StreamText{Lines: ls, Reps: 4200/len(StreamText{Lines: ls}.Render(false)) + 1}, Seed: 7}) {
				return
			}
		}
	}
	// the gzip-compressed form of a well-formed text handed to Reader as it is (Reader does not
	// decompress; whatever it makes of these bytes, a failing stream is reported)
	for _, f := range codecNames {
		var plain, zipped bytes.Buffer
		for _, l := range inputs[f][0] {
			plain.WriteString(l + "\n")
		}
		zw := gzip.NewWriter(&zipped)
		zw.Write(plain.Bytes())
		zw.Close()
		if !emit(C07Case{Kind: "read", Format: f, Text: StreamText{Raw: zipped.Bytes()}}) {
			return
		}
	}
	// the same inputs with one or two blank lines inserted at a line boundary (malformed for some
	// formats, skipped by others), and with one line dropped
	for _, f := range codecNames {
		lines := inputs[f][0]
		for i := 0; i <= len(lines); i++ {
			for _, edit := range []string{"blank", "blank2", "drop"} {
				var raw bytes.Buffer
				for j, l := range lines {
					if j == i && edit != "drop" {
						raw.WriteString("\n")
						if edit == "blank2" {
							raw.WriteString("\n")
						}
					}
					if j == i && edit == "drop" {
						continue
					}
					raw.WriteString(l + "\n")
				}
				if i == len(lines) {
					if edit == "drop" {
						continue
					}
					raw.WriteString("\n")
					if edit == "blank2" {
						raw.WriteString("\n")
					}
				}
				if !emit(C07Case{Kind: "read", Format: f, Text: StreamText{Raw: raw.Bytes()}}) {
					return
				}
			}
		}
	}
	// writers
	fa := FastaRec{Name: gen.B("n"), Seq: gen.Lit(seqOfLen(170))}
	fq := FastqRec{Name: gen.B("r"), Seq: gen.Lit([]byte("ACGTACGT")), Quals: gen.Lit([]byte("IIIIJJJJ"))}
	bd := baseBedRec(12)
	tr := gen.TreeSpec{Parents: []int{0, 0, 1, 1}, Names: []gen.B{gen.B("r"), gen.B("a b"), gen.B("c")}, Dists: []gen.F{0, 1.5}}
	for _, c := range []C07Case{
		{Kind: "write", Format: "fasta", Fasta: &fa}, {Kind: "write", Format: "fasta", Fasta: &FastaRec{}},
		{Kind: "write", Format: "fastq", Fastq: &fq}, {Kind: "write", Format: "fastq", Fastq: &FastqRec{}},
		{Kind: "write", Format: "sam", Sam: &baseSamRec}, {Kind: "write", Format: "sam", Sam: &SamRec{}},
		{Kind: "write", Format: "bed", Bed: &bd}, {Kind: "write", Format: "newick", Tree: &tr}, {Kind: "write", Format: "newick", Tree: &gen.TreeSpec{}},
	} {
		if !emit(c) {
			return
		}
	}
	for n := 3; n <= 12; n++ {
		b := baseBedRec(n)
		if !emit(C07Case{Kind: "write", Format: "bed", Bed: &b}) {
			return
		}
	}
	// records of several KB (longer than any block a writer may collect its output in)
	for i, n := range []int{4000, 4100, 5000, 9000, 20000, 66000, 140000} {
		lfa := FastaRec{Name: gen.B("chr" + strings.Repeat("x", i*20)), Seq: gen.Lit(realDNA(n, i, true, true))}
		lfq := FastqRec{Name: gen.B("read"), Seq: gen.Lit(realDNA(n, i, true, false)), Quals: gen.Lit(bytes.Repeat([]byte("I#~5"), n/4+1)[:n])}
		lsam := baseSamRec
		lsam.Seq, lsam.Qual = gen.B(realDNA(n, i, false, false)), gen.B(strings.Repeat("F", n))
		lbed := baseBedRec(4)
		lbed.Name = gen.B(strings.Repeat("feature_", n/8))
		ltr := gen.TreeSpec{Parents: []int{0, 0, 1, 1}, Names: []gen.B{gen.B(strings.Repeat("r", n/3)), gen.B(strings.Repeat("a b", n/9)), gen.B(strings.Repeat("c", n/3))}, Dists: []gen.F{0, 1.5}}
		if n > 30000 {
			// a tree of thousands of named leaves with branch lengths instead of three huge names
			ltr = gen.TreeSpec{Shape: "broom", N: 3, Fan: n / 16, Names: []gen.B{gen.B("taxon_0001"), gen.B("t 2"), gen.B("inner")}, Dists: []gen.F{0.125, 2.5, 0}}
		}
		for _, c := range []C07Case{
			{Kind: "write", Format: "fasta", Fasta: &lfa}, {Kind: "write", Format: "fastq", Fastq: &lfq},
			{Kind: "write", Format: "sam", Sam: &lsam}, {Kind: "write", Format: "bed", Bed: &lbed}, {Kind: "write", Format: "newick", Tree: &ltr},
		} {
			if !emit(c) {
				return
			}
		}
	}
}

func propC07() Prop[C07Case] {
	return Prop[C07Case]{ID: "C07", Gen: genC07, Exhaustive: exhaustiveC07, Check: checkC07, TerminationIsProperty: true}
}

func TestC07(t *testing.T) { Run(t, propC07()) }

func FuzzGenC07(f *testing.F) { RunFuzz(f, propC07()) }

func TestRaceC07(t *testing.T) { RunConcurrent(t, propC07(), 4) }
