package props

// C09: with zero gap-open cost Global and Local return the optimal score; Levenshtein;
// shipped tables are complete and symmetric.
// C10: with a non-zero gap-open cost Global and Local still return the optimal score.

import (
	"bytes"
	"errors"
	"fmt"
	"slices"
	"sync"
	"sync/atomic"
	"testing"

	"github.com/fluhus/biostuff/align"
	"pgregory.net/rapid"
	"verif/harness/internal/gen"
	"verif/harness/internal/ref"
)

// OptCase: Kind "" = alignment optimality; "table" = completeness/symmetry of a shipped
// table (M.Named); "lev" = Levenshtein entries for first byte X (all 256 second bytes).
type OptCase struct {
	AlignCase
	Kind string `json:"kind,omitempty"`
	X    int    `json:"x,omitempty"`
	// filled in by the check, not part of the case
	refilledScore float64
	haveRefilled  bool
}

func genOpt(nonZeroOpen bool) func(t *rapid.T, thorough bool) OptCase {
	return func(t *rapid.T, thorough bool) OptCase {
		var c OptCase
		maxLen := 40
		if thorough {
			maxLen = 120
		}
		c.Local = rapid.Bool().Draw(t, "local")
		switch {
		case nonZeroOpen:
			c.M = genMatSpec(t, matOpts{openLo: -8, openHi: -1, gapLo: -6, gapHi: 0, openNonZero: true})
			if rapid.IntRange(0, 5).Draw(t, "positiveOpen") == 3 {
				// "non-zero" includes a positive gap-open score (NCBI tables read with ReadNCBI have
				// {Gap,Gap} = +1 from their '* *' cell)
				c.M.Open = rapid.IntRange(1, 3).Draw(t, "openPos")
			}
		case rapid.IntRange(0, 2).Draw(t, "shipped") == 0:
			c.M = MatSpec{Named: rapid.SampledFrom(shippedNames).Draw(t, "matrix")}
			if thorough {
				maxLen = 200
			}
		case c.Local && rapid.IntRange(0, 3).Draw(t, "nonPositiveGaps") != 0:
			c.M = genMatSpec(t, matOpts{openLo: 0, openHi: 0, gapLo: -6, gapHi: 0})
		default:
			// C09 is stated for any zero-gap-open matrix: positive gap scores included, for
			// Local as well as for Global.
			c.M = genMatSpec(t, matOpts{openLo: 0, openHi: 0, gapLo: -6, gapHi: 3})
		}
		c.Mutate = genMatMutation(t, c.M)
		letters := c.M.letters()
		c.A = genSeqOver(t, letters, maxLen, "a")
		if rapid.Bool().Draw(t, "related") {
			c.B = genRelated(t, c.A, letters)
		} else {
			c.B = genSeqOver(t, letters, maxLen, "b")
		}
		return c
	}
}

var refSelfCheck sync.Once
var refSelfCheckErr error
var refSelfCheckCases int
var refCounted atomic.Bool

// validateReference checks the three-state reference against brute-force enumeration of all
// alignments (and, for Local, all substring pairs) on every pair of sequences of length <= 4
// over {a,b}, for a set of matrices with zero and non-zero gap-open. Runs once per process.
func validateReference() (int, error) {
	refSelfCheck.Do(func() {
		seqs := allSeqs([]byte("ab"), 4)
		for _, local := range []bool{false, true} {
			for _, ms := range fixedMatrices([]int{0, -1, -3, -7, 1, 2}, local) {
				_, rm, _ := ms.build()
				for _, a := range seqs {
					for _, b := range seqs {
						if len(a)+len(b) > 7 {
							continue
						}
						refSelfCheckCases++
						want := ref.BruteOptimum(a, b, rm, local)
						if got := ref.Optimum(a, b, rm, local); got != want {
							refSelfCheckErr = fmt.Errorf("reference model is wrong: Optimum(%q,%q,local=%v,%s)=%v, brute force %v", a, b, local, matDesc(ms), got, want)
							return
						}
					}
				}
			}
		}
	})
	return refSelfCheckCases, refSelfCheckErr
}

var errKnownC10 = errors.New("known finding C10 single-table")

func checkOptimal(c OptCase, o *Obs, wantNonZeroOpen bool) error {
	n, err := validateReference()
	if err != nil {
		panic(err) // harness defect, not a violation
	}
	if refCounted.CompareAndSwap(false, true) {
		o.Count("reference_validated_against_bruteforce_pairs", n)
	}
	switch c.Kind {
	case "table":
		return checkShippedTable(c, o)
	case "lev":
		return checkLevRow(c, o)
	}
	m, rm, err := c.M.build()
	if err != nil {
		return nil
	}
	open := rm[[2]byte{255, 255}]
	if wantNonZeroOpen != (open != 0) {
		return nil // case outside this property's domain (malformed replay)
	}
	if err := optimalOnce(c, o, m, rm, wantNonZeroOpen); err != nil {
		return err
	}
	if applyMutation(c.AlignCase, m, rm) {
		o.Class("matrix changed in place between calls")
		if err := optimalOnce(c, o, m, rm, wantNonZeroOpen); err != nil {
			return fmt.Errorf("after changing a score of the same matrix in place (%+v): %w", *c.Mutate, err)
		}
	}
	return nil
}

// optimalOnce runs one alignment call and compares it with the reference optimum.
func optimalOnce(c OptCase, o *Obs, m align.SubstitutionMatrix, rm ref.Matrix, wantNonZeroOpen bool) error {
	if !c.SameSlice && len(c.A)+len(c.B) <= 400 {
		// an earlier call that ended in the documented panic (a character without scores at the end
		// of a sequence that otherwise equals this case's a) leaves nothing behind
		if alien, ok := alienByte(m); ok {
			xa := append(bytes.Clone(c.A), alien)
			catch(func() {
				if c.Local {
					align.Local(xa, bytes.Clone(c.B), m)
				} else {
					align.Global(xa, bytes.Clone(c.B), m)
				}
			})
		}
		// the subject buffer of the previous call, refilled in place with another sequence of the
		// same length (a record-reading loop): this call is about what the buffer holds now
		if len(c.B) >= 2 {
			buf := bytes.Clone(c.B)
			slices.Reverse(buf)
			catch(func() {
				if c.Local {
					align.Local(bytes.Clone(c.A), buf, m)
				} else {
					align.Global(bytes.Clone(c.A), buf, m)
				}
			})
			copy(buf, c.B)
			var score float64
			if p := catch(func() {
				if c.Local {
					_, _, _, score = align.Local(bytes.Clone(c.A), buf, m)
				} else {
					_, score = align.Global(bytes.Clone(c.A), buf, m)
				}
			}); p == nil {
				c.refilledScore, c.haveRefilled = score, true // compared below with the ordinary call
			}
		}
	}
	res, err := runAlign(c.AlignCase, m)
	if err != nil {
		return err
	}
	// The validity clause (C08) is stated for Local only with non-positive gap scores; C09's
	// optimality clause holds for any zero-gap-open matrix, so with positive gap scores only the
	// score is compared.
	positiveGap := false
	for k, v := range rm {
		if (k[0] == 255) != (k[1] == 255) && v > 0 {
			positiveGap = true
		}
	}
	if rm[[2]byte{255, 255}] > 0 {
		positiveGap = true // a positive gap-open score is a positive gap score too
	}
	if c.Local && positiveGap {
		o.Class("local with positive gap scores (score only)")
	} else if err := checkValidity(c.AlignCase, rm, res, o); err != nil {
		return err
	}
	if c.haveRefilled && !near(c.refilledScore, res.score, c.M.tol()) {
		return fmt.Errorf("%s on a subject buffer that held the reversed sequence during the previous call and was refilled in place scores %v, the same call on fresh slices scores %v (a=%q b=%q, %s)",
			map[bool]string{true: "Local", false: "Global"}[c.Local], c.refilledScore, res.score, []byte(c.A), []byte(c.B), matDesc(c.M))
	}
	opt := ref.Optimum(c.A, c.B, rm, c.Local)
	// Non-trivial: the optimum needs a gap or a local trim, i.e. differs from the gap-free
	// diagonal score of the full sequences (or the sequences differ in length).
	diag, ok := 0.0, len(c.A) == len(c.B)
	if ok {
		for i := range c.A {
			diag += rm[[2]byte{c.A[i], c.B[i]}]
		}
	}
	o.NT = !ok || diag != opt
	name := "Global"
	if c.Local {
		name = "Local"
	}
	if !near(res.score, opt, c.M.tol()) {
		msg := fmt.Errorf("%s(%q,%q) score %v (steps %s), optimum is %v (%s)", name, []byte(c.A), []byte(c.B), res.score, stepString(res.steps), opt, matDesc(c.M))
		if res.score > opt {
			return fmt.Errorf("%v -- score ABOVE the optimum", msg)
		}
		if wantNonZeroOpen && near(res.score, ref.SingleTable(c.A, c.B, rm, c.Local), c.M.tol()) {
			o.Class("suboptimal (single-table recurrence)")
			return fmt.Errorf("%w: %v", errKnownC10, msg)
		}
		return msg
	}
	o.Class("optimal")
	// Levenshtein: Global score is exactly minus the edit distance.
	if c.M.Named == "Levenshtein" && !c.Local {
		if d := ref.EditDistance(c.A, c.B); res.score != float64(-d) {
			return fmt.Errorf("Global(%q,%q,Levenshtein) = %v, edit distance is %d", []byte(c.A), []byte(c.B), res.score, d)
		}
	}
	// A sequence aligned with itself, the very same slice passed as both arguments.
	if !c.SameSlice && len(c.A) > 0 && !c.Light {
		self := c
		self.B, self.SameSlice, self.Mutate, self.haveRefilled = c.A, true, nil, false
		if err := optimalOnce(self, &Obs{}, m, rm, wantNonZeroOpen); err != nil {
			return fmt.Errorf("with one slice passed as both sequences: %w", err)
		}
	}
	// Shipped matrices: swapping the arguments leaves the score unchanged.
	if c.M.Named != "" {
		sw := c.AlignCase
		sw.A, sw.B = c.B, c.A
		res2, err := runAlign(sw, m)
		if err != nil {
			return err
		}
		if !near(res2.score, res.score, c.M.tol()) {
			return fmt.Errorf("%s with %s: score(a,b)=%v but score(b,a)=%v for a=%q b=%q", name, c.M.Named, res.score, res2.score, []byte(c.A), []byte(c.B))
		}
	}
	return nil
}

func checkShippedTable(c OptCase, o *Obs) error {
	o.NT = true
	o.Class("table:" + c.M.Named)
	m := shippedMatrices[c.M.Named]()
	letters := c.M.letters()
	if c.M.Named != "Levenshtein" && len(letters) < 20 {
		return fmt.Errorf("%s has only %d letters", c.M.Named, len(letters))
	}
	all := append([]byte{}, letters...)
	all = append(all, 255)
	n := 0
	for _, x := range all {
		for _, y := range all {
			n++
			v, ok := m[[2]byte{x, y}]
			w, ok2 := m[[2]byte{y, x}]
			if !ok || !ok2 {
				return fmt.Errorf("%s has no entry for (%d %q, %d %q)", c.M.Named, x, x, y, y)
			}
			if v != w {
				return fmt.Errorf("%s is not symmetric: (%q,%q)=%v but (%q,%q)=%v", c.M.Named, x, y, v, y, x, w)
			}
		}
	}
	if m[[2]byte{255, 255}] != 0 {
		return fmt.Errorf("%s gap-open is %v, want 0", c.M.Named, m[[2]byte{255, 255}])
	}
	o.Count("table_entries_checked", n)
	// Using the library on a shipped matrix must not change it: Symmetrical() returns a copy, so
	// editing that copy leaves the shipped table complete and symmetric.
	before := len(m)
	cp := m.Symmetrical()
	cp[[2]byte{letters[0], letters[1]}] += 3
	delete(cp, [2]byte{letters[1], 255})
	cp[[2]byte{255, 255}] = -11
	if len(m) != before || m[[2]byte{255, 255}] != 0 || m[[2]byte{letters[0], letters[1]}] != m[[2]byte{letters[1], letters[0]}] {
		// restore what we can before reporting
		return fmt.Errorf("%s changed after the matrix returned by %s.Symmetrical() was edited (Symmetrical must return a copy)", c.M.Named, c.M.Named)
	}
	if _, ok := m[[2]byte{letters[1], 255}]; !ok {
		return fmt.Errorf("%s lost an entry after the matrix returned by %s.Symmetrical() was edited", c.M.Named, c.M.Named)
	}
	return nil
}

func checkLevRow(c OptCase, o *Obs) error {
	o.NT = true
	o.Class("levenshtein row")
	x := byte(c.X)
	for y := 0; y < 256; y++ {
		v, ok := align.Levenshtein[[2]byte{x, byte(y)}]
		want := -1.0
		if int(x) == y {
			want = 0
		}
		if !ok || v != want {
			return fmt.Errorf("Levenshtein[%d,%d] = %v (present %v), want %v", x, y, v, ok, want)
		}
	}
	o.Count("table_entries_checked", 256)
	if len(align.Levenshtein) != 65536 {
		return fmt.Errorf("Levenshtein has %d entries, want 65536", len(align.Levenshtein))
	}
	return nil
}

func exhaustiveC09(thorough bool, emit func(OptCase) bool) {
	for _, name := range shippedNames {
		if !emit(OptCase{Kind: "table", AlignCase: AlignCase{M: MatSpec{Named: name}}}) {
			return
		}
	}
	for x := 0; x < 256; x++ {
		if !emit(OptCase{Kind: "lev", X: x}) {
			return
		}
	}
	exhaustiveOpt(thorough, []int{0}, emit)
	// Levenshtein on all pairs of short strings over three bytes.
	seqs := allSeqs([]byte("ab\x00"), 3)
	for _, a := range seqs {
		for _, b := range seqs {
			if !emit(OptCase{AlignCase: AlignCase{A: a, B: b, M: MatSpec{Named: "Levenshtein"}}}) {
				return
			}
		}
	}
}

func exhaustiveOpt(thorough bool, opens []int, emit func(OptCase) bool) {
	wrap := func(c AlignCase) bool { return emit(OptCase{AlignCase: c}) }
	if !realAlignCases(opens[:1], []int{1023, 1100}, wrap) || !realAlignCases(opens[1:], nil, wrap) {
		return
	}
	if !megaAlignCases(opens[:1], !thorough, wrap) {
		return
	}
	if opens[0] == 0 && !levLikeCases(wrap) {
		return
	}
	// {a,b,c}: all pairs of sequences of length <= 3 (thorough 4) x fixed matrices over {a,b,c}.
	maxLen := 3
	if thorough {
		maxLen = 4
	}
	seqs := allSeqs([]byte("abc"), maxLen)
	var mats []MatSpec
	for _, open := range opens {
		mats = append(mats,
			MatSpec{Letters: gen.B("abc"), Pair: [][]int{{1, -1, -1}, {-1, 1, -1}, {-1, -1, 1}}, DelGap: []int{-1, -1, -1}, InsGap: []int{-1, -1, -1}, Open: open},
			MatSpec{Letters: gen.B("abc"), Pair: [][]int{{2, -1, -3}, {-1, 3, 0}, {-3, 0, 1}}, DelGap: []int{-2, -1, 0}, InsGap: []int{-2, -1, 0}, Open: open},
			MatSpec{Letters: gen.B("abc"), Pair: [][]int{{1, 0, -2}, {-3, 2, 1}, {0, -1, 4}}, DelGap: []int{-1, -3, -2}, InsGap: []int{-2, 0, -1}, Open: open},
		)
	}
	for _, local := range []bool{false, true} {
		for _, m := range mats {
			for _, a := range seqs {
				for _, b := range seqs {
					if !emit(OptCase{AlignCase: AlignCase{A: a, B: b, M: m, Local: local}}) {
						return
					}
				}
			}
		}
	}
	// {a,b}: longer sequences, more matrices.
	seqs2 := allSeqs([]byte("ab"), 5)
	for _, local := range []bool{false, true} {
		for _, m := range fixedMatrices(opens, true) {
			for _, a := range seqs2 {
				for _, b := range seqs2 {
					if !emit(OptCase{AlignCase: AlignCase{A: a, B: b, M: m, Local: local}}) {
						return
					}
				}
			}
		}
	}
}

func keyOpt(c OptCase) []byte {
	if c.Kind != "" {
		return []byte(fmt.Sprintf("%s/%s/%d", c.Kind, c.M.Named, c.X))
	}
	return keyAlign(c.AlignCase)
}

func propC09() Prop[OptCase] {
	return Prop[OptCase]{ID: "C09", Gen: genOpt(false), Exhaustive: exhaustiveC09, Key: keyOpt,
		Check: func(c OptCase, o *Obs) error { return checkOptimal(c, o, false) }}
}

func TestC09(t *testing.T) { Run(t, propC09()) }

func FuzzGenC09(f *testing.F) { RunFuzz(f, propC09()) }

func TestRaceC09(t *testing.T) { RunConcurrent(t, propC09(), 4) }

func propC10() Prop[OptCase] {
	return Prop[OptCase]{ID: "C10", Gen: genOpt(true), Key: keyOpt,
		Exhaustive: func(thorough bool, emit func(OptCase) bool) { exhaustiveOpt(thorough, []int{-1, -2, -5, 1}, emit) },
		Check:      func(c OptCase, o *Obs) error { return checkOptimal(c, o, true) },
		Known: func(c OptCase, err error) string {
			if errors.Is(err, errKnownC10) {
				return "c10-single-table"
			}
			return ""
		}}
}

func TestC10(t *testing.T) { Run(t, propC10()) }

func FuzzGenC10(f *testing.F) { RunFuzz(f, propC10()) }

func TestRaceC10(t *testing.T) { RunConcurrent(t, propC10(), 4) }
