package props

// C16: the interval index reports exactly the intervals covering a position.

import (
	"fmt"
	"math"
	"slices"
	"strconv"
	"sync"
	"testing"

	"github.com/fluhus/biostuff/regions"
	"pgregory.net/rapid"
)

type C16Case struct {
	Starts  []int `json:"starts"`
	Ends    []int `json:"ends"`
	Queries []int `json:"queries,omitempty"` // extra query positions
	// FirstCall: the named function is run as the first call into its package in a fresh process
	FirstCall string `json:"first_call,omitempty"`
}

func genC16(t *rapid.T, thorough bool) C16Case {
	var c C16Case
	maxN := 40
	if thorough {
		maxN = 120
	}
	n := rapid.OneOf(rapid.IntRange(0, 4), rapid.IntRange(0, 12), rapid.IntRange(0, maxN), rapid.IntRange(33, 64)).Draw(t, "n")
	coord := rapid.SampledFrom([]*rapid.Generator[int]{
		rapid.IntRange(0, 6),
		rapid.IntRange(-5, 5),
		rapid.IntRange(-100, 100),
		rapid.OneOf(rapid.IntRange(-3, 3), rapid.SampledFrom([]int{math.MinInt, math.MinInt + 1, math.MaxInt - 1, math.MaxInt, 0, 1 << 31, -(1 << 31)}), rapid.Int()),
	}).Draw(t, "coordgen")
	// "sparse" sets: many intervals, most of them empty, so that the few covering intervals have
	// large and widely spread indices (answers must not depend on which indices cover a position)
	sparse := n >= 20 && rapid.Bool().Draw(t, "sparse")
	for i := 0; i < n; i++ {
		s := coord.Draw(t, "start")
		var e int
		if sparse && rapid.IntRange(0, 9).Draw(t, "real") < 8 {
			c.Starts = append(c.Starts, s)
			c.Ends = append(c.Ends, s)
			continue
		}
		switch rapid.IntRange(0, 9).Draw(t, "shape") {
		case 0:
			e = s // empty
		case 1:
			e = coord.Draw(t, "end") // any order
		case 2:
			if len(c.Starts) > 0 { // duplicate an earlier interval
				j := rapid.IntRange(0, len(c.Starts)-1).Draw(t, "dup")
				s, e = c.Starts[j], c.Ends[j]
			} else {
				e = s
			}
		case 3:
			if len(c.Starts) > 0 { // touch an earlier interval's end
				j := rapid.IntRange(0, len(c.Starts)-1).Draw(t, "touch")
				s = c.Ends[j]
			}
			e = max(s, coord.Draw(t, "end"))
		default:
			e = coord.Draw(t, "end")
			if e < s {
				s, e = e, s
			}
		}
		c.Starts = append(c.Starts, s)
		c.Ends = append(c.Ends, e)
	}
	c.Queries = rapid.SliceOfN(coord, 0, 4).Draw(t, "queries")
	if rapid.IntRange(0, 19).Draw(t, "mismatch") == 0 {
		// Lists of different lengths must make NewIndex panic.
		if rapid.Bool().Draw(t, "dropStart") && len(c.Starts) > 0 {
			c.Starts = c.Starts[:len(c.Starts)-1]
		} else {
			c.Ends = append(c.Ends, 7)
		}
	}
	return c
}

func satAdd(x, d int) (int, bool) {
	if d > 0 && x > math.MaxInt-d {
		return 0, false
	}
	if d < 0 && x < math.MinInt-d {
		return 0, false
	}
	return x + d, true
}

// queryPoints: every endpoint, endpoint +-1, one below the minimum and one above the maximum.
func queryPoints(c C16Case) []int {
	set := map[int]struct{}{}
	add := func(x int) { set[x] = struct{}{} }
	for _, l := range [][]int{c.Starts, c.Ends, c.Queries} {
		for _, x := range l {
			add(x)
			if y, ok := satAdd(x, 1); ok {
				add(y)
			}
			if y, ok := satAdd(x, -1); ok {
				add(y)
			}
		}
	}
	add(0)
	var out []int
	for x := range set {
		out = append(out, x)
	}
	slices.Sort(out)
	return out
}

func bruteAt(c C16Case, i int) []int {
	var out []int
	for x := range c.Starts {
		if c.Starts[x] <= i && i < c.Ends[x] {
			out = append(out, x)
		}
	}
	return out
}

// wantAll is the reference for many intervals and many queries: for every interval, in index
// order, the queries it covers are found by binary search in the sorted query list (so each
// answer comes out ascending). For small cases it is cross-checked against bruteAt.
func wantAll(starts, ends, qs []int) [][]int {
	out := make([][]int, len(qs))
	for x := range starts {
		if starts[x] >= ends[x] {
			continue
		}
		lo, _ := slices.BinarySearch(qs, starts[x])
		hi, _ := slices.BinarySearch(qs, ends[x])
		for q := lo; q < hi; q++ {
			out[q] = append(out[q], x)
		}
	}
	if len(starts)*len(qs) <= 200000 {
		c := C16Case{Starts: starts, Ends: ends}
		for i, q := range qs {
			if !slices.Equal(out[i], bruteAt(c, q)) {
				panic(fmt.Sprintf("harness: the two reference models disagree at %d: %v vs %v", q, out[i], bruteAt(c, q)))
			}
		}
	}
	return out
}

func classifyC16(c C16Case, o *Obs) {
	n := len(c.Starts)
	overlap, empty, inverted, dup, touching, neg := false, false, false, false, false, false
	for i := 0; i < n; i++ {
		if c.Starts[i] == c.Ends[i] {
			empty = true
		}
		if c.Starts[i] > c.Ends[i] {
			inverted = true
		}
		if c.Starts[i] < 0 || c.Ends[i] < 0 {
			neg = true
		}
		for j := max(0, i-3000); j < i; j++ { // (classification only; a window keeps it linear for huge lists)
			if c.Starts[i] == c.Starts[j] && c.Ends[i] == c.Ends[j] {
				dup = true
			}
			if c.Starts[i] == c.Ends[j] || c.Starts[j] == c.Ends[i] {
				touching = true
			}
			if max(c.Starts[i], c.Starts[j]) < min(c.Ends[i], c.Ends[j]) {
				overlap = true
			}
		}
	}
	o.NT = n >= 2 && (overlap || empty || inverted)
	o.ClassIf(empty, "has empty")
	o.ClassIf(inverted, "has inverted")
	o.ClassIf(dup, "duplicate")
	o.ClassIf(touching, "touching")
	o.ClassIf(neg, "negative coords")
	o.ClassIf(overlap, "overlapping")
	o.ClassIf(n == 0, "no intervals")
}

func checkC16(c C16Case, o *Obs) error {
	if c.FirstCall != "" {
		o.NT = true
		o.Class("first call in a fresh process")
		return runFirstCall(c.FirstCall)
	}
	if len(c.Starts) != len(c.Ends) {
		o.Class("length mismatch")
		if p := catch(func() { regions.NewIndex(c.Starts, c.Ends) }); p == nil {
			return fmt.Errorf("NewIndex with %d starts and %d ends did not panic", len(c.Starts), len(c.Ends))
		}
		// an absent list (nil) and an empty one are both lists of length 0
		st, en := c.Starts, c.Ends
		if len(st) == 0 {
			st = nil
		}
		if len(en) == 0 {
			en = nil
		}
		if len(st) == 0 || len(en) == 0 {
			if p := catch(func() { regions.NewIndex(st, en) }); p == nil {
				return fmt.Errorf("NewIndex with %d starts and %d ends (the empty list passed as nil) did not panic", len(st), len(en))
			}
			if p := catch(func() { regions.NewIndex(append([]int{}, st...), append([]int{}, en...)) }); p == nil {
				return fmt.Errorf("NewIndex with %d starts and %d ends (the empty list passed as an empty non-nil slice) did not panic", len(st), len(en))
			}
		}
		return nil
	}
	classifyC16(c, o)
	// The arguments are windows of one buffer of the caller: starts, then ends, then other data
	// of the caller (every second case; otherwise slices without spare capacity). NewIndex must
	// not write to any of it.
	n := len(c.Starts)
	arenaC16 := make([]int, 0, 3*n+4)
	arenaC16 = append(append(arenaC16, c.Starts...), c.Ends...)
	for i := 0; i < n+4; i++ {
		arenaC16 = append(arenaC16, -7000-i)
	}
	arenaCopy := slices.Clone(arenaC16)
	starts, ends := arenaC16[:n], arenaC16[n:2*n]
	if (n+len(c.Queries))%2 == 0 {
		starts, ends = slices.Clone(c.Starts), slices.Clone(c.Ends)
	}
	var idx *regions.Index
	if p := catch(func() { idx = regions.NewIndex(starts, ends) }); p != nil {
		return fmt.Errorf("NewIndex(%v,%v) panicked: %v", c.Starts, c.Ends, p)
	}
	if !slices.Equal(starts, c.Starts) || !slices.Equal(ends, c.Ends) {
		return fmt.Errorf("NewIndex modified its arguments: starts %v -> %v, ends %v -> %v", c.Starts, starts, c.Ends, ends)
	}
	if !slices.Equal(arenaC16, arenaCopy) {
		return fmt.Errorf("NewIndex wrote to the caller's memory behind its arguments (starts and ends were windows of one buffer): %v became %v", arenaCopy, arenaC16)
	}
	// An index is a value of its own: building another index (other intervals, same number of
	// them) afterwards does not change its answers.
	{
		os, oe := make([]int, n), make([]int, n)
		for i := range os {
			os[i], oe[i] = c.Ends[n-1-i]-3, c.Starts[n-1-i]+5
		}
		if p := catch(func() { regions.NewIndex(os, oe) }); p != nil {
			return fmt.Errorf("NewIndex(%v,%v) panicked: %v", os, oe, p)
		}
	}
	qs := queryPoints(c)
	o.Count("queries", 3*len(qs))
	wants := wantAll(c.Starts, c.Ends, qs)
	var returned [][]int
	for qi, q := range qs {
		var got []int
		if p := catch(func() { got = idx.At(q) }); p != nil {
			return fmt.Errorf("At(%d) panicked: %v (starts=%s ends=%s)", q, p, abbrevInts(c.Starts), abbrevInts(c.Ends))
		}
		if !slices.Equal(got, wants[qi]) {
			return fmt.Errorf("NewIndex(%s,%s).At(%d) = %s, want %s", abbrevInts(c.Starts), abbrevInts(c.Ends), q, abbrevInts(got), abbrevInts(wants[qi]))
		}
		returned = append(returned, got)
	}
	// Scribble on every returned slice (including its spare capacity), then repeat all queries.
	for _, r := range returned {
		r = r[:cap(r)]
		for i := range r {
			r[i] = -1
		}
	}
	for qi, q := range qs {
		got := idx.At(q)
		if !slices.Equal(got, wants[qi]) {
			return fmt.Errorf("after mutating slices returned earlier, NewIndex(%s,%s).At(%d) = %s, want %s", abbrevInts(c.Starts), abbrevInts(c.Ends), q, abbrevInts(got), abbrevInts(wants[qi]))
		}
	}
	// The caller refills its two buffers with the next list (the next chromosome: same variables,
	// same length, other contents) and builds the next index from them. That index answers for
	// the new contents.
	s2, e2 := make([]int, n), make([]int, n)
	for i := 0; i < n; i++ {
		s2[i], e2[i] = c.Starts[n-1-i], c.Ends[n-1-i]
		if i%3 == 1 {
			if y, ok := satAdd(e2[i], 2); ok {
				e2[i] = y
			}
		}
		if i%3 == 2 {
			if y, ok := satAdd(s2[i], 1); ok {
				s2[i] = y
			}
		}
	}
	// (the call right before the refill is one on the same two buffers, as in a loop over chromosomes)
	var idx1b *regions.Index
	if p := catch(func() { idx1b = regions.NewIndex(starts, ends) }); p != nil {
		return fmt.Errorf("NewIndex(%s,%s) (called a second time with the same lists) panicked: %v", abbrevInts(c.Starts), abbrevInts(c.Ends), p)
	}
	for qi, q := range qs {
		if got := idx1b.At(q); !slices.Equal(got, wants[qi]) {
			return fmt.Errorf("NewIndex(%s,%s) called a second time with the same lists: At(%d) = %s, want %s", abbrevInts(c.Starts), abbrevInts(c.Ends), q, abbrevInts(got), abbrevInts(wants[qi]))
		}
	}
	copy(starts, s2)
	copy(ends, e2)
	var idx2 *regions.Index
	if p := catch(func() { idx2 = regions.NewIndex(starts, ends) }); p != nil {
		return fmt.Errorf("NewIndex(%s,%s) (second call, the same two buffers refilled) panicked: %v", abbrevInts(s2), abbrevInts(e2), p)
	}
	wants2 := wantAll(s2, e2, qs)
	for qi, q := range qs {
		var got []int
		if p := catch(func() { got = idx2.At(q) }); p != nil {
			return fmt.Errorf("At(%d) panicked: %v (starts=%s ends=%s)", q, p, abbrevInts(s2), abbrevInts(e2))
		}
		if !slices.Equal(got, wants2[qi]) {
			return fmt.Errorf("the caller's two buffers held %s / %s for a first NewIndex call and were then refilled with %s / %s for a second: the second index answers At(%d) = %s, want %s",
				abbrevInts(c.Starts), abbrevInts(c.Ends), abbrevInts(s2), abbrevInts(e2), q, abbrevInts(got), abbrevInts(wants2[qi]))
		}
	}
	return nil
}

func abbrevInts(a []int) string {
	if len(a) <= 40 {
		return fmt.Sprint(a)
	}
	return fmt.Sprintf("%v...(%d values)...%v", a[:12], len(a), a[len(a)-6:])
}

func exhaustiveC16(thorough bool, emit func(C16Case) bool) {
	if !emit(C16Case{FirstCall: "regions.NewIndex"}) {
		return
	}
	// thousands of short intervals in no particular order (a read pile-up): more events than any
	// small-input code path handles, at several nesting depths
	for _, n := range []int{1000, 5000, 9000} {
		x := lcg(n)
		var s, e []int
		for i := 0; i < n; i++ {
			st := x.next(20 * n)
			s = append(s, st)
			e = append(e, st+x.next(40)-2) // a few empty and inverted ones too
		}
		// and a pile of nested intervals listed innermost first
		for d := 0; d < 12; d++ {
			s = append(s, 500-d)
			e = append(e, 520+d)
		}
		if !emit(C16Case{Starts: s, Ends: e, Queries: []int{0, 505, 20 * n}}) {
			return
		}
	}
	// deep pile-ups: k copies of one interval, for k around every multiple of 64 up to 1025 (with
	// and without a few empty intervals in front, so that the covering serial numbers start at 0
	// or not), and a pile-up of consecutive reads that grows to depth 300 and shrinks again
	for _, k := range []int{63, 64, 65, 127, 128, 129, 191, 192, 193, 255, 256, 257, 258, 320, 321, 384, 385, 512, 513, 1024, 1025} {
		for _, lead := range []int{0, 5} {
			var s, e []int
			for i := 0; i < lead; i++ {
				s, e = append(s, 150), append(e, 150)
			}
			for i := 0; i < k; i++ {
				s, e = append(s, 100), append(e, 200)
			}
			s, e = append(s, 150, 190), append(e, 160, 250)
			if !emit(C16Case{Starts: s, Ends: e}) {
				return
			}
		}
	}
	{
		var s, e []int
		for i := 0; i < 700; i++ {
			s, e = append(s, 2*i), append(e, 2*i+600)
		}
		if !emit(C16Case{Starts: s, Ends: e}) {
			return
		}
	}
	// tens of thousands of intervals that touch: tiling windows, and back-to-back exon pairs
	// separated by gaps; every boundary (and its neighbours) is queried
	for _, n := range []int{16384, 20000, 40001} {
		var s, e, s2, e2 []int
		for i := 0; i < n; i++ {
			s, e = append(s, 10*i), append(e, 10*i+10)
			s2, e2 = append(s2, 30*(i/2)+10*(i%2)), append(e2, 30*(i/2)+10*(i%2)+10)
		}
		if !emit(C16Case{Starts: s, Ends: e}) || !emit(C16Case{Starts: s2, Ends: e2}) {
			return
		}
	}
	// Coordinates 0..3: all lists of up to 3 (thorough: 4) intervals incl. start==end and start>end.
	maxN := 3
	if thorough {
		maxN = 4
	}
	var rec func(s, e []int) bool
	rec = func(s, e []int) bool {
		if !emit(C16Case{Starts: slices.Clone(s), Ends: slices.Clone(e), Queries: []int{-1, 4}}) {
			return false
		}
		if len(s) == maxN {
			return true
		}
		for a := 0; a < 4; a++ {
			for b := 0; b < 4; b++ {
				if !rec(append(s, a), append(e, b)) {
					return false
				}
			}
		}
		return true
	}
	rec(nil, nil)
	// Index relabelling: two overlapping pairs of intervals placed at every choice of four indices
	// among n (all other intervals empty). The answers depend only on which intervals cover a
	// position, never on their indices.
	n := 34
	if thorough {
		n = 44
	}
	for i := 0; i < n; i++ {
		for j := i + 1; j < n; j++ {
			for k := 0; k < n; k++ {
				if k == i || k == j {
					continue
				}
				for l := k + 1; l < n; l++ {
					if l == i || l == j {
						continue
					}
					s, e := make([]int, n), make([]int, n)
					for x := range s {
						s[x], e[x] = 5, 5
					}
					s[i], e[i], s[j], e[j] = 0, 2, 1, 3
					s[k], e[k], s[l], e[l] = 10, 12, 11, 13
					if !emit(C16Case{Starts: s, Ends: e}) {
						return
					}
				}
			}
		}
	}
	// Length mismatches.
	for a := 0; a < 4; a++ {
		for b := 0; b < 4; b++ {
			if a != b {
				if !emit(C16Case{Starts: make([]int, a), Ends: make([]int, b)}) {
					return
				}
			}
		}
	}
}

func keyC16(c C16Case) []byte {
	k := make([]byte, 0, 16*len(c.Starts)+8)
	k = append(k, c.FirstCall...)
	for _, l := range [][]int{c.Starts, c.Ends, c.Queries} {
		for _, x := range l {
			k = strconv.AppendInt(k, int64(x), 36)
			k = append(k, ',')
		}
		k = append(k, '|')
	}
	return k
}

func propC16() Prop[C16Case] {
	return Prop[C16Case]{ID: "C16", Gen: genC16, Exhaustive: exhaustiveC16, Check: checkC16, Key: keyC16}
}

func TestC16(t *testing.T) { Run(t, propC16()) }

func FuzzGenC16(f *testing.F) { RunFuzz(f, propC16()) }

// checkC16Race is run from a binary built with -race: concurrent readers query one index,
// scribble on what they get and query again; answers must match the brute force and the race
// detector must stay silent (a report makes the process exit non-zero, which the driver maps
// to a violation).
func checkC16Race(c C16Case, o *Obs) error {
	if len(c.Starts) != len(c.Ends) {
		return nil
	}
	classifyC16(c, o)
	o.Class("concurrent")
	idx := regions.NewIndex(c.Starts, c.Ends)
	qs := queryPoints(c)
	var wg sync.WaitGroup
	errs := make(chan error, 8)
	for g := 0; g < 8; g++ {
		wg.Add(1)
		go func(g int) {
			defer wg.Done()
			for rep := 0; rep < 3; rep++ {
				for k := range qs {
					q := qs[(k*7+g)%len(qs)]
					got := idx.At(q)
					if want := bruteAt(c, q); !slices.Equal(got, want) {
						errs <- fmt.Errorf("concurrent At(%d) = %v, want %v (starts=%v ends=%v)", q, got, want, c.Starts, c.Ends)
						return
					}
					got = got[:cap(got)]
					for i := range got {
						got[i] = -g - 1
					}
				}
			}
		}(g)
	}
	wg.Wait()
	close(errs)
	return <-errs
}

func TestC16Race(t *testing.T) {
	Run(t, Prop[C16Case]{ID: "C16", Gen: genC16, Check: checkC16Race,
		Key: func(c C16Case) []byte { return append(keyC16(c), "race"...) }})
}
