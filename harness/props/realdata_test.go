package props

// Inputs shaped like real data rather than like random strings: low-complexity sequence
// (homopolymer runs at every alignment, microsatellites, palindromic sites, soft-masked
// stretches, N gaps whose case changes inside the gap) and sizes around and beyond the usual
// internal block sizes (2^8 .. 2^17). Deterministic: a function of (n, variant) only.

import (
	"bytes"
	"fmt"
	"os"
	"os/exec"
	"sort"
	"strings"
	"testing"

	"github.com/fluhus/biostuff/sequtil"
)

// sizeLadder: lengths around the powers of two that block-wise implementations use.
var sizeLadder = []int{255, 256, 257, 1023, 1024, 1025, 4095, 4096, 4097, 8191, 8193, 12289, 16385, 65535, 65536, 65537, 70001, 131073}

// sizeLadderLinear adds, for linear-time functions, the multiples of three and five of powers of
// two (blocks of 3*2^k bases are whole codons and whole packed bytes at once) and their neighbours.
var sizeLadderLinear = append(append([]int{}, sizeLadder...), 12287, 12288, 24576, 24577, 49151, 49152, 49153, 49154, 81920, 98304, 98305, 163840, 196608, 196609)

// foreignPositions: where a foreign byte is put into a sequence of n bases on the ladder - the
// ends, the middle, and just inside the leftover of n after whole blocks of 4 Ki, 16 Ki and 64 Ki.
func foreignPositions(n int) []int {
	set := map[int]bool{0: true, n - 1: true, n / 2: true, min(99, n-1): true}
	for _, blk := range []int{4096, 16384, 65536} {
		if r := n % blk; r > 0 {
			set[r-1] = true
			set[n-r] = true
		}
	}
	var out []int
	for p := range set {
		out = append(out, p)
	}
	sort.Ints(out)
	return out
}

// sizeLadderShort is the part of the ladder that is affordable for quadratic algorithms.
var sizeLadderShort = []int{255, 256, 257, 1023, 1024, 1025, 1100}

type lcg uint64

func (x *lcg) next(n int) int {
	*x = *x*6364136223846793005 + 1442695040888963407
	return int((uint64(*x) >> 33) % uint64(n))
}

// realDNA returns n bases made of segments as genomes have them. withN adds N gaps; lower adds
// soft-masked (lower-case) stretches and mixed-case runs.
func realDNA(n, variant int, withN, lower bool) []byte {
	x := lcg(variant*7919 + 12345)
	out := make([]byte, 0, n+64)
	upper := []byte("ACGT")
	for len(out) < n {
		switch x.next(10) {
		case 0: // poly-A tail or other homopolymer, any length 1..40, at whatever offset we are
			b := upper[x.next(4)]
			if x.next(2) == 0 {
				b = 'A'
			}
			out = append(out, bytes.Repeat([]byte{b}, 1+x.next(40))...)
		case 1: // microsatellite
			unit := [][]byte{[]byte("CA"), []byte("TA"), []byte("CAG"), []byte("AT"), []byte("GATA"), []byte("AAT")}[x.next(6)]
			out = append(out, bytes.Repeat(unit, 2+x.next(20))...)
		case 2: // palindromic restriction sites
			out = append(out, [][]byte{[]byte("GAATTC"), []byte("GGATCC"), []byte("AAGCTT"), []byte("GCGGCCGC"), []byte("TTAA")}[x.next(5)]...)
		case 3: // soft-masked repeat
			seg := make([]byte, 5+x.next(60))
			for i := range seg {
				seg[i] = upper[x.next(4)]
				if lower {
					seg[i] |= 0x20
				}
			}
			out = append(out, seg...)
		case 4: // assembly gap
			if withN {
				l := 1 + x.next(30)
				for i := 0; i < l; i++ {
					b := byte('N')
					if lower && (i/3)%2 == 1 {
						b = 'n'
					}
					out = append(out, b)
				}
			}
		case 5: // long homopolymer: T, G or C of 8..70
			b := []byte("TGCtgc")[x.next(6)]
			if !lower {
				b &^= 0x20
			}
			out = append(out, bytes.Repeat([]byte{b}, 8+x.next(63))...)
		default: // unique sequence
			l := 1 + x.next(80)
			for i := 0; i < l; i++ {
				out = append(out, upper[x.next(4)])
			}
		}
	}
	return out[:n]
}

// realProtein returns n residues including the rare letters B Z X * U O.
func realProtein(n, variant int, letters []byte) []byte {
	x := lcg(variant*104729 + 7)
	out := make([]byte, 0, n+32)
	for len(out) < n {
		switch x.next(8) {
		case 0: // masked stretch
			out = append(out, bytes.Repeat([]byte{'X'}, 1+x.next(12))...)
		case 1: // low-complexity
			out = append(out, bytes.Repeat([]byte{letters[x.next(len(letters))]}, 2+x.next(15))...)
		default:
			l := 1 + x.next(30)
			for i := 0; i < l; i++ {
				out = append(out, letters[x.next(len(letters))])
			}
		}
	}
	out = out[:n]
	// keep only letters the matrix knows
	for i, b := range out {
		if bytes.IndexByte(letters, b) < 0 {
			out[i] = letters[0]
		}
	}
	return out
}

// warmSequtil does what a program that uses the whole package does between two calls of the
// function under test: it calls the package's other sequence functions on related data
// (longer, shorter, shifted by one; every third case only, chosen by the data, so that
// back-to-back calls of one function are exercised as well). Nothing these calls do may
// influence the call that follows. Only data over aAcCgGtT of moderate length is used; every
// call is guarded, results are discarded.
func warmSequtil(s []byte, o *Obs) {
	if len(s) == 0 || len(s) > 3000 || (len(s)+int(s[0]))%3 != 0 {
		return
	}
	for _, c := range s {
		if strings.IndexByte("aAcCgGtT", c) < 0 {
			return
		}
	}
	if o != nil {
		o.Class("after calls of the package's other sequence functions")
	}
	up := bytes.ToUpper(s)
	tri := append(append(append([]byte{}, up...), up...), up...)
	calls := []func(){
		func() { sequtil.Translate(nil, tri) },
		func() { sequtil.TranslateReadingFrames(append(append([]byte{}, s...), 'G')) },
		func() { sequtil.ReverseComplement(nil, tri[:len(tri)-1]) },
		func() { sequtil.ReverseComplementString(string(s) + "n") },
		func() { sequtil.DNATo2Bit(nil, append(append([]byte{}, tri...), 'C', 'g', 'T')) },
		func() { sequtil.DNAFrom2Bit(nil, up) },
		func() {
			n := 0
			for range sequtil.CanonicalSubsequences(tri, 1+len(s)%5) {
				if n++; n == 2 {
					break
				}
			}
		},
	}
	// the order rotates with the data, so that each function is the last one before the call
	// under test in some cases
	rot := (len(s)/3 + int(s[len(s)-1])) % len(calls)
	for i := range calls {
		catch(calls[(i+rot)%len(calls)])
	}
}

// firstCalls: each exported function of sequtil (and a few of align and mash) as the FIRST call
// into its package in a fresh process, with a known small answer. A table that is built lazily on
// some entry points but not on others passes every test that happens to call another function
// first. runFirstCall re-executes the test binary with TestFirstCall as its only test.
var firstCalls = map[string]func() error{
	"ReverseComplement": func() error {
		return expectBytes("ReverseComplement(nil, AACGn)", sequtil.ReverseComplement(nil, []byte("AACGn")), "nCGTT")
	},
	"ReverseComplementString": func() error {
		return expectBytes("ReverseComplementString(AACGn)", []byte(sequtil.ReverseComplementString("AACGn")), "nCGTT")
	},
	"CanonicalSubsequences": func() error {
		var got []string
		for x := range sequtil.CanonicalSubsequences([]byte("AACGT"), 2) {
			got = append(got, string(x))
		}
		return expectBytes("CanonicalSubsequences(AACGT,2)", []byte(strings.Join(got, " ")), "AA AC CG AC")
	},
	"DNATo2Bit": func() error {
		return expectBytes("DNATo2Bit(nil, ACGTc)", sequtil.DNATo2Bit(nil, []byte("ACGTc")), "\x1b\x40")
	},
	"DNAFrom2Bit": func() error {
		return expectBytes("DNAFrom2Bit(nil, 1b)", sequtil.DNAFrom2Bit(nil, []byte{0x1b}), "ACGT")
	},
	"Ntoi": func() error {
		return expectBytes("Ntoi(A,c,G,t)", []byte{byte(sequtil.Ntoi('A')), byte(sequtil.Ntoi('c')), byte(sequtil.Ntoi('G')), byte(sequtil.Ntoi('t'))}, "\x00\x01\x02\x03")
	},
	"Iton": func() error {
		return expectBytes("Iton(0..3)", []byte{sequtil.Iton(0), sequtil.Iton(1), sequtil.Iton(2), sequtil.Iton(3)}, "ACGT")
	},
	"Translate": func() error {
		return expectBytes("Translate(nil, ATGtaaTGG)", sequtil.Translate(nil, []byte("ATGtaaTGG")), "M*W")
	},
	"TranslateReadingFrames": func() error {
		fr := sequtil.TranslateReadingFrames([]byte("ATGTAAG"))
		return expectBytes("TranslateReadingFrames(ATGTAAG)", bytes.Join(fr[:], []byte("|")), "M*|CK|V")
	},
	"AminoName": func() error {
		a, b := sequtil.AminoName('w')
		if a == "" || b == "" {
			return fmt.Errorf("AminoName('w') = %q, %q", a, b)
		}
		return nil
	},
	"Translate-panics": func() error {
		if p := catch(func() { sequtil.Translate(nil, []byte("ATGNAA")) }); p == nil {
			return fmt.Errorf("Translate(ATGNAA) did not panic")
		}
		return nil
	},
	"DNATo2Bit-panics": func() error {
		if p := catch(func() { sequtil.DNATo2Bit(nil, []byte("ACGN")) }); p == nil {
			return fmt.Errorf("DNATo2Bit(ACGN) did not panic")
		}
		return nil
	},
	"ReverseComplement-panics": func() error {
		if p := catch(func() { sequtil.ReverseComplement(nil, []byte("ACGU")) }); p == nil {
			return fmt.Errorf("ReverseComplement(ACGU) did not panic")
		}
		return nil
	},
}

func expectBytes(what string, got []byte, want string) error {
	if string(got) != want {
		return fmt.Errorf("%s = %q, want %q", what, got, want)
	}
	return nil
}

// TestFirstCall is the child side: it runs exactly one entry of firstCalls, named by the
// environment, as the first thing this process does with the package under test.
func TestFirstCall(t *testing.T) {
	name := os.Getenv("VERIF_FIRSTCALL")
	if name == "" {
		t.Skip("child side of runFirstCall")
	}
	f, ok := firstCalls[name]
	if !ok {
		t.Fatalf("unknown first call %q", name)
	}
	var err error
	if p := catch(func() { err = f() }); p != nil {
		err = fmt.Errorf("panicked: %v", p)
	}
	if err != nil {
		fmt.Printf("FIRSTCALL-FAIL %v\n", err)
		t.Fail()
	}
}

// runFirstCall is the parent side.
func runFirstCall(name string) error {
	if _, ok := firstCalls[name]; !ok {
		return nil // malformed replay file
	}
	cmd := exec.Command(os.Args[0], "-test.run", "^TestFirstCall$", "-test.count", "1")
	cmd.Env = append(os.Environ(), "VERIF_FIRSTCALL="+name, "VERIF_REPLAY=", "VERIF_OUT="+os.TempDir())
	out, err := cmd.CombinedOutput()
	if err == nil {
		return nil
	}
	msg := string(out)
	if i := strings.Index(msg, "FIRSTCALL-FAIL "); i >= 0 {
		msg = strings.SplitN(msg[i+len("FIRSTCALL-FAIL "):], "\n", 2)[0]
	} else if len(msg) > 400 {
		msg = msg[:400]
	}
	return fmt.Errorf("%s as the first call into the package in a fresh process: %s", name, msg)
}
