package props

// Inputs shaped like real data rather than like random strings: low-complexity sequence
// (homopolymer runs at every alignment, microsatellites, palindromic sites, soft-masked
// stretches, N gaps whose case changes inside the gap) and sizes around and beyond the usual
// internal block sizes (2^8 .. 2^17). Deterministic: a function of (n, variant) only.

import (
	"bytes"
	"sort"
	"strings"

	"github.com/fluhus/biostuff/sequtil"
)

// sizeLadder: lengths around the powers of two that block-wise implementations use.
var sizeLadder = []int{255, 256, 257, 1023, 1024, 1025, 4095, 4096, 4097, 8191, 8193, 12289, 16385, 65535, 65536, 65537, 70001, 131073}

// sizeLadderLinear adds, for linear-time functions, the multiples of three and five of powers of
// two (blocks of 3*2^k bases are whole codons and whole packed bytes at once) and their neighbours.
var sizeLadderLinear = append(append([]int{}, sizeLadder...), 12287, 12288, 24576, 24577, 49151, 49152, 49153, 49154, 81920, 98304, 98305, 163840, 196608, 196609)

// foreignPositions: where a foreign byte is put into a sequence of n bases on the ladder - the
// ends, the middle, and just inside the leftover of n after whole blocks of 4 Ki, 16 Ki and 64 Ki.
func foreignPositions(n int) []int {
	set := map[int]bool{0: true, n - 1: true, n / 2: true, min(99, n-1): true}
	for _, blk := range []int{4096, 16384, 65536} {
		if r := n % blk; r > 0 {
			set[r-1] = true
			set[n-r] = true
		}
	}
	var out []int
	for p := range set {
		out = append(out, p)
	}
	sort.Ints(out)
	return out
}

// sizeLadderShort is the part of the ladder that is affordable for quadratic algorithms.
var sizeLadderShort = []int{255, 256, 257, 1023, 1024, 1025, 1100}

type lcg uint64

func (x *lcg) next(n int) int {
	*x = *x*6364136223846793005 + 1442695040888963407
	return int((uint64(*x) >> 33) % uint64(n))
}

// realDNA returns n bases made of segments as genomes have them. withN adds N gaps; lower adds
// soft-masked (lower-case) stretches and mixed-case runs.
func realDNA(n, variant int, withN, lower bool) []byte {
	x := lcg(variant*7919 + 12345)
	out := make([]byte, 0, n+64)
	upper := []byte("ACGT")
	for len(out) < n {
		switch x.next(10) {
		case 0: // poly-A tail or other homopolymer, any length 1..40, at whatever offset we are
			b := upper[x.next(4)]
			if x.next(2) == 0 {
				b = 'A'
			}
			out = append(out, bytes.Repeat([]byte{b}, 1+x.next(40))...)
		case 1: // microsatellite
			unit := [][]byte{[]byte("CA"), []byte("TA"), []byte("CAG"), []byte("AT"), []byte("GATA"), []byte("AAT")}[x.next(6)]
			out = append(out, bytes.Repeat(unit, 2+x.next(20))...)
		case 2: // palindromic restriction sites
			out = append(out, [][]byte{[]byte("GAATTC"), []byte("GGATCC"), []byte("AAGCTT"), []byte("GCGGCCGC"), []byte("TTAA")}[x.next(5)]...)
		case 3: // soft-masked repeat
			seg := make([]byte, 5+x.next(60))
			for i := range seg {
				seg[i] = upper[x.next(4)]
				if lower {
					seg[i] |= 0x20
				}
			}
			out = append(out, seg...)
		case 4: // assembly gap
			if withN {
				l := 1 + x.next(30)
				for i := 0; i < l; i++ {
					b := byte('N')
					if lower && (i/3)%2 == 1 {
						b = 'n'
					}
					out = append(out, b)
				}
			}
		case 5: // long homopolymer: T, G or C of 8..70
			b := []byte("TGCtgc")[x.next(6)]
			if !lower {
				b &^= 0x20
			}
			out = append(out, bytes.Repeat([]byte{b}, 8+x.next(63))...)
		default: // unique sequence
			l := 1 + x.next(80)
			for i := 0; i < l; i++ {
				out = append(out, upper[x.next(4)])
			}
		}
	}
	return out[:n]
}

// realProtein returns n residues including the rare letters B Z X * U O.
func realProtein(n, variant int, letters []byte) []byte {
	x := lcg(variant*104729 + 7)
	out := make([]byte, 0, n+32)
	for len(out) < n {
		switch x.next(8) {
		case 0: // masked stretch
			out = append(out, bytes.Repeat([]byte{'X'}, 1+x.next(12))...)
		case 1: // low-complexity
			out = append(out, bytes.Repeat([]byte{letters[x.next(len(letters))]}, 2+x.next(15))...)
		default:
			l := 1 + x.next(30)
			for i := 0; i < l; i++ {
				out = append(out, letters[x.next(len(letters))])
			}
		}
	}
	out = out[:n]
	// keep only letters the matrix knows
	for i, b := range out {
		if bytes.IndexByte(letters, b) < 0 {
			out[i] = letters[0]
		}
	}
	return out
}

// warmSequtil does what a program that uses the whole package does between two calls of the
// function under test: it calls the package's other sequence functions on related data
// (longer, shorter, shifted by one; every third case only, chosen by the data, so that
// back-to-back calls of one function are exercised as well). Nothing these calls do may
// influence the call that follows. Only data over aAcCgGtT of moderate length is used; every
// call is guarded, results are discarded.
func warmSequtil(s []byte, o *Obs) {
	if len(s) == 0 || len(s) > 3000 || (len(s)+int(s[0]))%3 != 0 {
		return
	}
	for _, c := range s {
		if strings.IndexByte("aAcCgGtT", c) < 0 {
			return
		}
	}
	if o != nil {
		o.Class("after calls of the package's other sequence functions")
	}
	up := bytes.ToUpper(s)
	tri := append(append(append([]byte{}, up...), up...), up...)
	calls := []func(){
		func() { sequtil.Translate(nil, tri) },
		func() { sequtil.TranslateReadingFrames(append(append([]byte{}, s...), 'G')) },
		func() { sequtil.ReverseComplement(nil, tri[:len(tri)-1]) },
		func() { sequtil.ReverseComplementString(string(s) + "n") },
		func() { sequtil.DNATo2Bit(nil, append(append([]byte{}, tri...), 'C', 'g', 'T')) },
		func() { sequtil.DNAFrom2Bit(nil, up) },
		func() {
			n := 0
			for range sequtil.CanonicalSubsequences(tri, 1+len(s)%5) {
				if n++; n == 2 {
					break
				}
			}
		},
	}
	// the order rotates with the data, so that each function is the last one before the call
	// under test in some cases
	rot := (len(s)/3 + int(s[len(s)-1])) % len(calls)
	for i := range calls {
		catch(calls[(i+rot)%len(calls)])
	}
}
