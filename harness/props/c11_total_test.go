package props

// C11: parsers are total: arbitrary bytes never panic, accepted records are stable
// (fixed points of their codec), and a malformed SAM line is isolated.

import (
	"bytes"
	"encoding/hex"
	"encoding/json"
	"fmt"
	"os"
	"path/filepath"
	"strconv"
	"strings"
	"testing"

	"github.com/fluhus/biostuff/align"
	"github.com/fluhus/biostuff/formats/bed"
	"github.com/fluhus/biostuff/formats/fasta"
	"github.com/fluhus/biostuff/formats/fastq"
	"github.com/fluhus/biostuff/formats/newick"
	"github.com/fluhus/biostuff/formats/sam"
	"github.com/fluhus/biostuff/formats/smtext"
	"pgregory.net/rapid"
	"verif/harness/internal/gen"
)

// SamLineCorruption damages line P of a valid SAM file.
type SamLineCorruption struct {
	Kind  string `json:"kind"` // fewfields | badint | tagcolons | tagtype | tagvalue | wsline
	Arg   int    `json:"arg"`
	Text  string `json:"text"`
	AtTag bool   `json:"at_tag,omitempty"`
}

type C11Case struct {
	Kind   string             `json:"kind"`   // total | samline
	Format string             `json:"format"` // fasta fastq sam samh bed newick ncbi
	Text   gen.B              `json:"text,omitempty"`
	Recs   []SamRec           `json:"recs,omitempty"`
	P      int                `json:"p,omitempty"`
	Corr   *SamLineCorruption `json:"corr,omitempty"`
}

var c11Formats = []string{"fasta", "fastq", "sam", "samh", "bed", "newick", "ncbi"}

var dictionary = []string{`"`, `""`, `''`, `'`, "@", ">", "+", "#", ":", "::", ",", "(", ")", ";", "\t", "\r", "\n", "\r\n", "nan", "0x1p-2",
	"1e999", "-", "*", " ", "_", "\x00", "\xff", "\x80", "=", "0", "-1", "9223372036854775808", "XX:A:\xff", "XX:i:", "XX:f:inf", "XX:H:0", "XX:B:c,1",
	"255,255,256", "0x1,0b1,0o7", "\xef\xbb\xbf", "%", "%s", "%!", "\r\n\r\n", "1_0", "\t\t", "\n\n", "'a''b'", ":1e5", "(,)", ";;", "\n>", "\n@", "\n+\n", "\f", "\v",
	// shapes real tools write: an empty B array tag, a long bracketed annotation block (BEAST), a UCSC track line,
	// a placeholder sign, an Illumina read name
	"ML:B:C", "\tML:B:C", "[&" + strings.Repeat("rate=0.125,height_95%_HPD={0.1,0.2},", 6) + "posterior=1]", "[]", "track name=x description=\"y z\"\n", "browser position chr1:1-2\n",
	"\t-\t", "\t+\t", "M01234:56:000000000-ABCDE:1:1101:15589:1332 1:N:0:1", "/1", "chrUn_gl000220", "1e-05", "1.0E+2", "-0", "+1", "1.",
	// numbers with more digits than a float64 or an int holds exactly
	// words that a layer may take for a keyword (all of gen.HostileTokens are spliced as well, see exhaustiveC11)
	"track", "track\t", "browser", "NA", "null", "%09", "%25",
	// numbers at the limits of the integer and single-precision types, as branch lengths, tag
	// values and coordinates
	":9223372036854775807", ":9223372036854775808", ":-9223372036854775808", ":9.223372036854776e18", ":4294967296", ":2147483648", ":16777217", ":1e15", ":1e21", ":1e22",
	":3.4028234663852886e38", ":0.10000000149011612", "9223372036854775807", "-9223372036854775808", "4294967296", "2147483648", "-2147483649", "XX:i:9223372036854775807", "XX:f:16777217",
	"XX:f:3.4028235e38", "XX:f:0.10000000149011612",
	"0.97552492417777546", ":0.97552492417777546", "0.1000000000000000055511151231257827", "9007199254740993", "1.7976931348623157e308", "4.9e-324", "123456789012345678901234567890"}

// ---- own renderers of valid text (independent of the library's writers) -------------------

func renderSamRec(r SamRec) string {
	var b strings.Builder
	fmt.Fprintf(&b, "%s\t%d\t%s\t%d\t%d\t%s\t%s\t%d\t%d\t%s\t%s", r.Qname, r.Flag, r.Rname, r.Pos, r.Mapq, r.Cigar, r.Rnext, r.Pnext, r.Tlen, r.Seq, r.Qual)
	for _, t := range r.Tags {
		b.WriteString("\t" + t.Name + ":" + t.Type + ":")
		switch t.Type {
		case "A":
			b.WriteByte(byte(t.A))
		case "i":
			b.WriteString(strconv.Itoa(t.I))
		case "f":
			b.WriteString(strconv.FormatFloat(float64(t.F), 'g', -1, 64))
		case "Z":
			b.Write(t.Z)
		case "H":
			b.WriteString(hex.EncodeToString(t.H))
		}
	}
	return b.String()
}

func renderBedRec(r BedRec) string {
	ints := func(x []int) string {
		var s []string
		for _, v := range x {
			s = append(s, strconv.Itoa(v))
		}
		return strings.Join(s, ",")
	}
	f := []string{string(r.Chrom), strconv.Itoa(r.ChromStart), strconv.Itoa(r.ChromEnd), string(r.Name), strconv.Itoa(r.Score), r.Strand,
		strconv.Itoa(r.ThickStart), strconv.Itoa(r.ThickEnd), fmt.Sprintf("%d,%d,%d", r.RGB[0], r.RGB[1], r.RGB[2]), strconv.Itoa(r.BlockCount),
		ints(r.BlockSizes), ints(r.BlockStarts)}
	n := min(max(r.N, 0), 12)
	return strings.Join(f[:n], "\t")
}

func quoteNewickName(s []byte) []byte {
	if bytes.ContainsAny(s, "(),:;'_\t\n\r ") || len(s) == 0 && false {
		return []byte("'" + strings.ReplaceAll(string(s), "'", "''") + "'")
	}
	return s
}

func renderNewickQuoted(ts gen.TreeSpec) string {
	q := ts
	q.Names = nil
	for _, n := range ts.Names {
		q.Names = append(q.Names, gen.B(quoteNewickName(n)))
	}
	return renderNewick(q)
}

// genValidText draws a valid text of the format with hostile field contents.
func genValidText(t *rapid.T, format string) []byte {
	var b bytes.Buffer
	n := rapid.SampledFrom([]int{1, 1, 2, 3, 4}).Draw(t, "nrecs")
	switch format {
	case "fasta":
		for i := 0; i < n; i++ {
			r := genFastaRec(false).Draw(t, "fasta")
			seq := r.Seq.Bytes()
			if len(seq) > 400 {
				seq = seq[:400]
			}
			b.WriteString(">" + string(r.Name) + "\n")
			w := rapid.IntRange(1, 100).Draw(t, "width")
			for len(seq) > 0 {
				k := min(w, len(seq))
				b.Write(seq[:k])
				b.WriteByte('\n')
				seq = seq[k:]
			}
		}
	case "fastq":
		for i := 0; i < n; i++ {
			r := genFastqRec(false, false).Draw(t, "fastq")
			b.Write(fastqText(r.Name, r.Seq.Bytes(), r.Quals.Bytes()))
		}
	case "sam", "samh":
		nh := rapid.IntRange(0, 2).Draw(t, "nheaders")
		for i := 0; i < nh; i++ {
			b.WriteString("@" + string(samHeaderAlpha.Bytes(0, 10).Draw(t, "header")) + "\n")
		}
		for i := 0; i < n; i++ {
			b.WriteString(renderSamRec(genSamRec(t)) + "\n")
		}
	case "bed":
		nf := rapid.IntRange(3, 12).Draw(t, "n")
		for i := 0; i < n; i++ {
			b.WriteString(renderBedRec(genBedRec(t, nf)) + "\n")
		}
	case "newick":
		for i := 0; i < n; i++ {
			ts := genNewickTree(t, 12, nil)
			b.WriteString(renderNewickQuoted(ts))
			b.WriteString(rapid.SampledFrom([]string{"", "\n", " "}).Draw(t, "sep"))
		}
	case "ncbi":
		c := genC20(t, false)
		for c.Kind != "ncbi" {
			c = C20Case{Kind: "ncbi", Rows: gen.B("AC*"), Cols: gen.B("AC*"), Scores: [][]gen.F{{1, -1, -4}, {-1, 1, -4}, {-4, -4, 1}}, Layout: genNcbiLayout(t)}
		}
		b.Write(renderNcbi(c))
	}
	return b.Bytes()
}

var formatAlphabets = map[string]string{
	"fasta":  ">\n\r ACGTacgtN;#",
	"fastq":  "@+\n\rACGT!I~ ",
	"sam":    "@\t\n\r:AiZfHB0123456789abcdefXY\"-.e",
	"samh":   "@\t\n\r:AiZfHB0123456789abcdefXY\"-.e",
	"bed":    "\t\n\r#+-.,0123456789chrx\"",
	"newick": "(),:;'_ \t\n\rab01.e-[]\"",
	"ncbi":   "#* \t\n\r\fACGT0123456789.-+e",
}

// genNearValid draws (1) a valid text with 1..8 edits, or (2) bytes from a format-biased alphabet.
func genNearValid(t *rapid.T, format string) []byte {
	if format == "samh" && false {
		format = "sam"
	}
	if rapid.IntRange(0, 3).Draw(t, "alphabetOnly") == 0 {
		alpha := []byte(formatAlphabets[format])
		bg := rapid.OneOf(rapid.SampledFrom(alpha), rapid.SampledFrom(alpha), rapid.SampledFrom(alpha), rapid.Byte())
		return rapid.SliceOfN(bg, 0, 120).Draw(t, "bytes")
	}
	text := genValidText(t, format)
	edits := rapid.IntRange(0, 8).Draw(t, "edits")
	for e := 0; e < edits; e++ {
		pos := 0
		if len(text) > 0 {
			pos = rapid.IntRange(0, len(text)).Draw(t, "pos")
		}
		switch rapid.IntRange(0, 5).Draw(t, "edit") {
		case 0: // insert a dictionary token
			tok := rapid.SampledFrom(dictionary).Draw(t, "tok")
			text = append(text[:pos:pos], append([]byte(tok), text[pos:]...)...)
		case 1: // delete a span
			l := min(rapid.IntRange(1, 6).Draw(t, "dellen"), len(text)-pos)
			text = append(text[:pos:pos], text[pos+l:]...)
		case 2: // replace a byte
			if pos < len(text) {
				text = bytes.Clone(text)
				text[pos] = rapid.Byte().Draw(t, "byte")
			}
		case 3: // duplicate a span
			l := min(rapid.IntRange(1, 40).Draw(t, "duplen"), len(text)-pos)
			span := bytes.Clone(text[pos : pos+l])
			text = append(text[:pos:pos], append(span, text[pos:]...)...)
		case 4: // truncate
			text = text[:pos]
		case 5: // rarely: a very long run
			if rapid.IntRange(0, 40).Draw(t, "huge") == 0 {
				run := bytes.Repeat([]byte("A"), 70000)
				text = append(text[:pos:pos], append(run, text[pos:]...)...)
			}
		}
	}
	return text
}

func genC11(t *rapid.T, thorough bool) C11Case {
	if rapid.IntRange(0, 3).Draw(t, "samline") == 0 {
		c := C11Case{Kind: "samline", Format: "sam"}
		n := rapid.IntRange(3, 6).Draw(t, "nrecs")
		for i := 0; i < n; i++ {
			r := genPlainSamRec(t)
			c.Recs = append(c.Recs, r)
		}
		c.P = rapid.IntRange(0, n-1).Draw(t, "p")
		c.Corr = &SamLineCorruption{
			Kind:  rapid.SampledFrom(samCorrKinds).Draw(t, "ckind"),
			Arg:   rapid.IntRange(0, 40).Draw(t, "arg"),
			AtTag: rapid.Bool().Draw(t, "attag"),
		}
		c.Corr.Text = rapid.SampledFrom(samCorrTexts[c.Corr.Kind]).Draw(t, "ctext")
		return c
	}
	c := C11Case{Kind: "total", Format: rapid.SampledFrom(c11Formats).Draw(t, "format")}
	c.Text = genNearValid(t, c.Format)
	return c
}

var samCorrKinds = []string{"fewfields", "badint", "tagcolons", "tagtype", "tagvalue", "wsline"}
var samCorrTexts = map[string][]string{
	"fewfields": {""},
	// a line of white space only is not an empty line: it has too few fields
	"wsline":    {"\t", "\t\t", " ", "  \t ", "\t\t\t\t\t\t\t\t\t\t", "\v", "\f"},
	"badint":    {"x", "1.5", "", "12a", "--1", "0x1F", "1e3", " 1", "9223372036854775808", "1 ", "-", "+", "+-1", "-+1", "*", ".", "1_000", "\u0661"},
	"tagcolons": {"XX", "XX:i", "XXi1", "X", "", "XX:Z", "XX:H", "XX:B", "XX:A", "XX:f", "Z:XX", ":Z"},
	"tagtype":   {"XX:Q:1", "XX::1", "XX:ii:1", "XX:I:1", "XX:z:a", ":X:i:5", "a::Z:v", ":a:Z:v", "::Z:v", "X::i:5", "::::", ":::"},
	// (type B is not an unknown type for this library: it is accepted and kept as a string)
	"tagvalue": {"XX:i:abc", "XX:i:1.5", "XX:i:", "XX:f:abc", "XX:f:", "XX:H:xyz", "XX:H:abc", "XX:A:ab", "XX:A:", "XX:i:9223372036854775808"},
}

// Every byte that is not a hexadecimal digit makes an H value ill-typed, wherever it stands: added
// for all such bytes (TAB, CR, LF excluded - they would end the field or the line), as the first
// and as the second character of a two-character value and inside a longer one.
func init() {
	for b := 0; b < 256; b++ {
		c := byte(b)
		if c == '\t' || c == '\r' || c == '\n' || c >= '0' && c <= '9' || c|0x20 >= 'a' && c|0x20 <= 'f' {
			continue
		}
		samCorrTexts["tagvalue"] = append(samCorrTexts["tagvalue"], "XX:H:1"+string([]byte{c}), "XX:H:"+string([]byte{c})+"A", "XX:H:ab"+string([]byte{c, c})+"09")
	}
}

// genPlainSamRec: a record over the plain field alphabet with a non-empty Qname.
func genPlainSamRec(t *rapid.T) SamRec {
	r := SamRec{Qname: plainWord.Draw(t, "qname"), Flag: rapid.IntRange(0, 4095).Draw(t, "flag"), Rname: plainWord.Draw(t, "rname"),
		Pos: rapid.IntRange(0, 1<<30).Draw(t, "pos"), Mapq: rapid.IntRange(0, 255).Draw(t, "mapq"), Cigar: plainWord.Draw(t, "cigar"),
		Rnext: gen.B("="), Pnext: rapid.IntRange(0, 1<<30).Draw(t, "pnext"), Tlen: rapid.IntRange(-1000, 1000).Draw(t, "tlen"),
		Seq: plainWord.Draw(t, "seq"), Qual: plainWord.Draw(t, "qual")}
	nt := rapid.IntRange(0, 3).Draw(t, "ntags")
	for i := 0; i < nt; i++ {
		name := string([]byte{"XYZ"[i], "ABCDEFG"[rapid.IntRange(0, 6).Draw(t, "t2")]})
		tag := SamTag{Name: name, Type: rapid.SampledFrom([]string{"A", "i", "f", "Z", "H"}).Draw(t, "type")}
		switch tag.Type {
		case "A":
			tag.A = rapid.IntRange('!', '~').Draw(t, "A")
		case "i":
			tag.I = rapid.IntRange(-100000, 100000).Draw(t, "i")
		case "f":
			tag.F = gen.F(float64(rapid.IntRange(-1000, 1000).Draw(t, "f")) / 8)
		case "Z":
			tag.Z = plainWord.Draw(t, "Z")
		case "H":
			tag.H = gen.B(rapid.SliceOfN(rapid.Byte(), 0, 4).Draw(t, "H"))
		}
		r.Tags = append(r.Tags, tag)
	}
	return r
}

// ---- fixed-point machinery -------------------------------------------------------------

// rewrite writes an accepted record with the matching writer; inDomain is false for records
// outside the statement's domain (delimiter bytes inside text fields).
func rewrite(format string, raw any) (text []byte, mtext []byte, inDomain bool, err error) {
	var w bytes.Buffer
	var werr error
	var p any
	var marshal func() ([]byte, error)
	switch format {
	case "fasta":
		f := raw.(*fasta.Fasta)
		if f == nil || bytes.ContainsAny(f.Name, "\r\n") || bytes.ContainsAny(f.Sequence, "\r\n>") {
			return nil, nil, false, nil
		}
		p, marshal = catch(func() { werr = f.Write(&w) }), f.MarshalText
	case "fastq":
		f := raw.(*fastq.Fastq)
		if f == nil || bytes.ContainsAny(f.Name, "\r\n") || bytes.ContainsAny(f.Sequence, "\r\n") || bytes.ContainsAny(f.Quals, "\r\n") {
			return nil, nil, false, nil
		}
		p, marshal = catch(func() { werr = f.Write(&w) }), f.MarshalText
	case "sam", "samh":
		var s *sam.SAM
		if format == "samh" {
			sh := raw.(sam.SAMOrHeader)
			if sh.S == nil {
				return nil, nil, false, nil // header lines have no writer
			}
			s = sh.S
		} else {
			s = raw.(*sam.SAM)
		}
		if s == nil {
			return nil, nil, false, nil
		}
		for _, f := range []string{s.Qname, s.Rname, s.Cigar, s.Rnext, s.Seq, s.Qual} {
			if strings.ContainsAny(f, "\t\r\n") {
				return nil, nil, false, nil
			}
		}
		for k, v := range s.Tags {
			if strings.ContainsAny(k, "\t\r\n") {
				return nil, nil, false, nil
			}
			switch x := v.(type) {
			case string:
				if strings.ContainsAny(x, "\t\r\n") {
					return nil, nil, false, nil
				}
			case byte:
				if x == '\t' || x == '\r' || x == '\n' {
					return nil, nil, false, nil
				}
			}
		}
		p, marshal = catch(func() { werr = s.Write(&w) }), s.MarshalText
	case "bed":
		b := raw.(*bed.BED)
		if b == nil || strings.ContainsAny(b.Chrom+b.Name+b.Strand, "\t\r\n") {
			return nil, nil, false, nil
		}
		p, marshal = catch(func() { werr = b.Write(&w) }), b.MarshalText
	case "newick":
		n := raw.(*newick.Node)
		if n == nil {
			return nil, nil, false, nil
		}
		for x := range n.PreOrder() {
			if strings.ContainsAny(x.Name, "\t\r\n") {
				return nil, nil, false, nil
			}
		}
		p, marshal = catch(func() { werr = n.Write(&w) }), n.MarshalText
	default:
		return nil, nil, false, nil
	}
	if p != nil {
		return nil, nil, true, fmt.Errorf("writer panicked on an accepted record: %v", p)
	}
	if werr != nil {
		return nil, nil, true, fmt.Errorf("writer failed on an accepted record: %v", werr)
	}
	// MarshalText is the other face of the same writer
	var mt []byte
	var merr error
	if p := catch(func() { mt, merr = marshal() }); p != nil || merr != nil {
		return nil, nil, true, fmt.Errorf("MarshalText of an accepted record failed: panic=%v err=%v (Write produces %s)", p, merr, gen.Abbrev(w.Bytes()))
	}
	if !bytes.Equal(mt, w.Bytes()) {
		return nil, nil, true, fmt.Errorf("MarshalText of an accepted record gives %s, Write gives %s", gen.Abbrev(mt), gen.Abbrev(w.Bytes()))
	}
	return w.Bytes(), mt, true, nil
}

func checkC11(c C11Case, o *Obs) error {
	if c.Kind == "samline" {
		return checkSamLine(c, o)
	}
	o.Class("format:" + c.Format)
	text := []byte(c.Text)
	if c.Format == "ncbi" {
		var m align.SubstitutionMatrix
		var err error
		if p := catch(func() { m, err = smtext.ReadNCBI(bytes.NewReader(text)) }); p != nil {
			return fmt.Errorf("ReadNCBI panicked on %s: %v", gen.Abbrev(text), p)
		}
		if (m == nil) == (err == nil) {
			return fmt.Errorf("ReadNCBI returned matrix==nil:%v together with error %v on %s", m == nil, err, gen.Abbrev(text))
		}
		o.ClassIf(err == nil, "accepted")
		o.ClassIf(err != nil, "rejected")
		o.NT = err == nil && len(m) > 0
		return nil
	}
	codec := codecs[c.Format]
	if codec == nil {
		return nil
	}
	limit := len(text) + 8
	items, over, p := collect(func(cb func(Item) bool) { codec.Reader(bytes.NewReader(text), cb) }, limit+1)
	if p != nil {
		return fmt.Errorf("%s reader panicked on %s: %v", c.Format, gen.Abbrev(text), p)
	}
	if over {
		return fmt.Errorf("%s reader yields more than %d items for %d input bytes (does not terminate?)", c.Format, limit, len(text))
	}
	accepted, rejected := 0, 0
	var keeper marshalKeeper
	var whole bytes.Buffer
	var wholeWant []string
	for i, it := range items {
		if it.Err != nil {
			rejected++
			continue
		}
		if it.Raw == nil || it.Rec == "<nil>" {
			return fmt.Errorf("%s reader yields a nil record without an error at item %d (input %s)", c.Format, i, gen.Abbrev(text))
		}
		accepted++
		rt, mt, inDomain, err := rewrite(c.Format, it.Raw)
		if mt != nil {
			keeper.keep(fmt.Sprintf("item %d", i), mt)
		}
		if !inDomain {
			o.Class("accepted, outside domain")
			continue
		}
		if err != nil {
			return fmt.Errorf("%s item %d (%s): %v (input %s)", c.Format, i, it, err, gen.Abbrev(text))
		}
		o.Class("accepted+in-domain re-encoded")
		back, over, p := collect(func(cb func(Item) bool) { codec.Reader(bytes.NewReader(rt), cb) }, 4)
		if p != nil || over || len(back) != 1 || back[0].Err != nil || back[0].Rec != it.Rec {
			return fmt.Errorf("%s: accepted record %s is not a fixed point: written as %s, read back as %s (panic %v; input %s)",
				c.Format, it, gen.Abbrev(rt), describeItems(back), p, gen.Abbrev(text))
		}
		whole.Write(rt)
		if c.Format == "newick" {
			whole.WriteByte('\n')
		}
		wholeWant = append(wholeWant, it.Rec)
	}
	if len(wholeWant) >= 2 {
		back, over, p := collect(func(cb func(Item) bool) { codec.Reader(bytes.NewReader(whole.Bytes()), cb) }, len(wholeWant)+3)
		ok := p == nil && !over && len(back) == len(wholeWant)
		for i := 0; ok && i < len(back); i++ {
			ok = back[i].Err == nil && back[i].Rec == wholeWant[i]
		}
		if !ok {
			return fmt.Errorf("%s: the %d accepted records written one after another read back as %s (panic %v; input %s)", c.Format, len(wholeWant), describeItems(back), p, gen.Abbrev(text))
		}
	}
	if err := keeper.verify(); err != nil {
		return fmt.Errorf("%s: %v (input %s)", c.Format, err, gen.Abbrev(text))
	}
	o.ClassIf(accepted > 0, "accepted")
	o.ClassIf(rejected > 0, "rejected")
	o.NT = accepted >= 1
	return nil
}

func checkSamLine(c C11Case, o *Obs) error {
	if len(c.Recs) < 2 || c.Corr == nil {
		return nil
	}
	for _, r := range c.Recs {
		if !r.inDomain() || len(r.Qname) == 0 {
			return nil
		}
	}
	p := ((c.P % len(c.Recs)) + len(c.Recs)) % len(c.Recs)
	lines := make([]string, len(c.Recs))
	want := make([]string, len(c.Recs))
	for i, r := range c.Recs {
		lines[i] = renderSamRec(r)
		want[i] = canonSAM(r.toSAM())
	}
	fields := strings.Split(lines[p], "\t")
	cr := c.Corr
	switch cr.Kind {
	case "fewfields":
		fields = fields[:1+cr.Arg%10] // keep the first 1..10 fields
	case "wsline":
		fields = []string{cr.Text}
	case "badint":
		idx := []int{1, 3, 4, 7, 8}[cr.Arg%5]
		if _, err := strconv.Atoi(cr.Text); err == nil {
			return nil
		}
		fields[idx] = cr.Text
	case "tagcolons", "tagtype", "tagvalue":
		if strings.Count(cr.Text, ":") >= 2 && cr.Kind == "tagcolons" {
			return nil
		}
		if cr.AtTag && len(fields) > 11 {
			fields[11+cr.Arg%(len(fields)-11)] = cr.Text
		} else {
			fields = append(fields, cr.Text)
		}
		// every other time a well-formed tag of the same name comes first on the line (a repeated
		// name does not make the ill-formed occurrence acceptable)
		if i := strings.Index(cr.Text, ":"); cr.Arg%2 == 1 && i > 0 && strings.Count(cr.Text, ":") >= 2 && len(fields) >= 11 {
			o.Class("ill-formed tag repeats the name of a well-formed one")
			fields = append(fields[:11:11], append([]string{cr.Text[:i] + ":i:7"}, fields[11:]...)...)
		}
	default:
		return nil
	}
	o.Class("samline:" + cr.Kind)
	o.ClassIf(p == 0, "first line")
	o.ClassIf(p == len(c.Recs)-1, "last line")
	o.NT = true
	bad := strings.Join(fields, "\t")
	all := append([]string{}, lines...)
	all[p] = bad
	text := []byte(strings.Join(all, "\n") + "\n")
	defer cleanupTemp()
	path := writeTemp(text, ".sam")
	for _, name := range []string{"sam", "samh", "sam-file", "samh-file"} {
		codec := codecs[strings.TrimSuffix(name, "-file")]
		run := func(cb func(Item) bool) { codec.Reader(bytes.NewReader(text), cb) }
		if strings.HasSuffix(name, "-file") {
			// File and FileHeader too (every other case, to keep the file traffic low)
			if (cr.Arg+p)%2 == 1 {
				continue
			}
			run = func(cb func(Item) bool) { codec.File(path, cb) }
		}
		items, over, pn := collect(run, len(c.Recs)+4)
		if pn != nil {
			return fmt.Errorf("%s reader panicked on a file with malformed line %q: %v", name, bad, pn)
		}
		if over || len(items) != len(c.Recs) {
			return fmt.Errorf("%s reader yields %d items for %d lines of which line %d (%q) is malformed: %s", name, len(items), len(c.Recs), p, bad, describeItems(items))
		}
		for i, it := range items {
			if i == p {
				if it.Err == nil {
					return fmt.Errorf("%s reader accepted malformed line %d %q as %s", name, p, bad, it)
				}
				continue
			}
			w := want[i]
			if strings.HasPrefix(name, "samh") {
				w = "samh|S|" + w
			}
			if it.Err != nil || it.Rec != w {
				return fmt.Errorf("%s reader: line %d (%q) is malformed, and neighbouring item %d is %s, want %s", name, p, bad, i, it, w)
			}
		}
	}
	return nil
}

func exhaustiveC11(thorough bool, emit func(C11Case) bool) {
	// the small literal inputs used for C06, for every decoder
	for _, f := range codecNames {
		for _, in := range append(append([]string{}, smallInputs[f]...), tinyInputs[f]...) {
			if !emit(C11Case{Kind: "total", Format: f, Text: gen.B(in)}) {
				return
			}
		}
	}
	for _, in := range []string{"", "#\n", " A C\nA 1 2\nC 3 4\n", "A\nA 1 2\n", "A C\nA 1\n", "AB\nA 1\n", "A\nA x\n", "*\n* 1\n", "A\n\nA 1e999\n", "\n \n"} {
		if !emit(C11Case{Kind: "total", Format: "ncbi", Text: gen.B(in)}) {
			return
		}
	}
	// every input of one byte, and every input of two bytes that starts with a byte the format
	// gives a meaning to (or with the first byte of a byte-order mark, a gzip header, a UTF-16
	// mark): what a look-ahead for a prefix sees when the input ends early
	for _, f := range c11Formats {
		firsts := append([]byte(formatAlphabets[f]), 0xef, 0xbb, 0x1f, 0x8b, 0xff, 0xfe, 0x00)
		for b := 0; b < 256; b++ {
			if !emit(C11Case{Kind: "total", Format: f, Text: gen.B{byte(b)}}) {
				return
			}
			for _, a := range firsts {
				if !emit(C11Case{Kind: "total", Format: f, Text: gen.B{a, byte(b)}}) {
					return
				}
			}
		}
	}
	// every dictionary token alone and spliced at every position of a valid line, per format
	valid := map[string]string{
		"fasta": ">n\nACGT\n", "fastq": "@n\nAC\n+\nII\n", "sam": "q\t0\tr\t1\t2\tM\t=\t4\t5\tA\tI\tXX:i:1\n",
		"samh": "@HD\tVN:1\nq\t0\tr\t1\t2\tM\t=\t4\t5\tA\tI\tXA:A:c\n", "bed": "c\t1\t2\tn\t5\t+\t1\t2\t1,2,3\t1\t5\t6\n",
		"newick": "(a:1,'b c')d;", "ncbi": "  A C\nA 1 -2\nC -2 1\n",
	}
	for _, f := range c11Formats {
		v := valid[f]
		for _, tok := range dictionary {
			for pos := 0; pos <= len(v); pos++ {
				if !emit(C11Case{Kind: "total", Format: f, Text: gen.B(v[:pos] + tok + v[pos:])}) {
					return
				}
			}
		}
		// every token (and every hostile token of the codec generators) at the start of a SECOND
		// record: what is accepted there must be a fixed point when written on its own
		for _, tok := range dictionary {
			if !emit(C11Case{Kind: "total", Format: f, Text: gen.B(v + tok + v)}) {
				return
			}
		}
		for _, tok := range gen.HostileTokens {
			for pos := 0; pos <= len(v); pos++ {
				if pos > 0 && v[pos-1] != '\n' && v[pos-1] != '\t' && v[pos-1] != '>' && v[pos-1] != '@' && v[pos-1] != '(' && v[pos-1] != ',' {
					continue // field starts only
				}
				if !emit(C11Case{Kind: "total", Format: f, Text: gen.B(v + v[:pos] + string(tok) + v[pos:])}) {
					return
				}
			}
		}
		// every byte value replacing every position
		for pos := 0; pos < len(v); pos++ {
			for b := 0; b < 256; b += 1 {
				if !thorough && b%3 != pos%3 && b > 32 && b < 127 && !strings.ContainsRune("\"'@>+#:,();_-.", rune(b)) {
					continue
				}
				t := []byte(v)
				t[pos] = byte(b)
				if !emit(C11Case{Kind: "total", Format: f, Text: t}) {
					return
				}
			}
		}
	}
	// nested parentheses at every depth around the powers of two (and named, with lengths, with a
	// sibling at every level): trees the reader accepts must be written so that they read back
	for _, d := range []int{1, 2, 15, 16, 17, 31, 32, 33, 34, 63, 64, 65, 66, 127, 128, 129, 130, 255, 256, 257, 1023, 1025, 4097} {
		for _, in := range []string{
			strings.Repeat("(", d) + "a" + strings.Repeat(")", d) + ";",
			strings.Repeat("(", d) + "a:1" + strings.Repeat(")x:2", d) + ";",
			strings.Repeat("(b,", d) + "a" + strings.Repeat(")", d) + ";",
			strings.Repeat("(", d) + "a" + strings.Repeat(",c)", d) + ";\n(x,y)z;",
		} {
			if !emit(C11Case{Kind: "total", Format: "newick", Text: gen.B(in)}) {
				return
			}
		}
	}
	// a line of 4096 .. 131072 content bytes (whole multiples of 64 KiB and their neighbours) in
	// every format: what is accepted there is a fixed point too
	for _, n := range []int{4095, 4096, 65535, 65536, 65537, 131072} {
		pad := func(base int) string { return strings.Repeat("ACGT", n/4+1)[:n-base] }
		long := map[string]string{
			"fasta":  ">a\nAC\n>" + pad(1) + "\n" + pad(0) + "\n>b\nGT\n",
			"fastq":  "@a\nAC\n+\nII\n@b\n" + pad(0) + "\n+\n" + strings.Repeat("I", n) + "\n@" + pad(1) + "\nG\n+\nJ\n",
			"sam":    "q1\t0\tr\t+1\t2\tM\t=\t4\t5\tA\tI\n" + "q2\t0\tr\t+7\t2\tM\t=\t4\t5\tA\tI\tXX:Z:" + pad(29) + "\n" + "q2\t0\tr\t+7\t2\tM\t=\t4\t5\tA\tI\tXX:Z:" + pad(28) + "\nq3\t0\tr\t1\t2\tM\t=\t4\t5\tA\tI\n",
			"samh":   "@CO\t" + pad(4) + "\nq2\t0\tr\t+7\t2\tM\t=\t4\t5\tA\tI\tXX:Z:" + pad(28) + "\n",
			"bed":    "c\t+1\t2\tn\nc\t+1\t2\t" + pad(7) + "\nc\t+1\t2\t" + pad(6) + "\nd\t3\t4\tm\n",
			"newick": "(a,b)c;\n(" + pad(6) + ",b)d;\n(" + pad(7) + ":+1,b)d;\n(e)f;\n",
		}
		for _, f := range codecNames {
			if !emit(C11Case{Kind: "total", Format: f, Text: gen.B(long[f])}) {
				return
			}
		}
	}
	// SAM line isolation: every (line position, corruption kind, text, field) on fixed files
	files := [][]SamRec{
		{baseSamRec, func() SamRec { r := baseSamRec; r.Qname = gen.B("read2"); r.Tags = nil; return r }(), func() SamRec { r := baseSamRec; r.Qname = gen.B("read3"); return r }()},
		{func() SamRec { r := baseSamRec; r.Tags = nil; return r }(), baseSamRec, baseSamRec, func() SamRec { r := baseSamRec; r.Qname = gen.B("r4"); return r }()},
	}
	for _, recs := range files {
		for p := range recs {
			for _, kind := range samCorrKinds {
				for _, txt := range samCorrTexts[kind] {
					for arg := 0; arg < 10; arg++ {
						for _, at := range []bool{false, true} {
							if !emit(C11Case{Kind: "samline", Format: "sam", Recs: recs, P: p, Corr: &SamLineCorruption{Kind: kind, Arg: arg, Text: txt, AtTag: at}}) {
								return
							}
						}
						if kind != "fewfields" && kind != "badint" && arg >= 1 {
							break
						}
					}
				}
			}
		}
	}
}

func propC11() Prop[C11Case] {
	return Prop[C11Case]{ID: "C11", Gen: genC11, Exhaustive: exhaustiveC11, Check: checkC11, TerminationIsProperty: true}
}

func TestC11(t *testing.T) { Run(t, propC11()) }

func FuzzGenC11(f *testing.F) { RunFuzz(f, propC11()) }

func TestRaceC11(t *testing.T) { RunConcurrent(t, propC11(), 4) }

// ---- native fuzz targets (thorough tier) ------------------------------------------------

func fuzzTotal(f *testing.F, format string) {
	for _, in := range append(append([]string{}, smallInputs[format]...), tinyInputs[format]...) {
		f.Add([]byte(in))
	}
	for _, tok := range dictionary {
		f.Add([]byte(tok))
	}
	f.Fuzz(func(t *testing.T, data []byte) {
		c := C11Case{Kind: "total", Format: format, Text: data}
		var o Obs
		var err error
		if p := catch(func() { err = checkC11(c, &o) }); p != nil {
			err = fmt.Errorf("panic in check: %v", p)
		}
		if err != nil {
			if dir := os.Getenv("VERIF_REPLAYS"); dir != "" {
				js, _ := json.MarshalIndent(c, "", " ")
				os.MkdirAll(dir, 0o755)
				os.WriteFile(filepath.Join(dir, "C11-fuzz-"+format+".json"), js, 0o644)
			}
			t.Fatalf("%v", err)
		}
	})
}

func FuzzC11Fasta(f *testing.F)  { fuzzTotal(f, "fasta") }
func FuzzC11Fastq(f *testing.F)  { fuzzTotal(f, "fastq") }
func FuzzC11Sam(f *testing.F)    { fuzzTotal(f, "sam") }
func FuzzC11SamH(f *testing.F)   { fuzzTotal(f, "samh") }
func FuzzC11Bed(f *testing.F)    { fuzzTotal(f, "bed") }
func FuzzC11Newick(f *testing.F) { fuzzTotal(f, "newick") }
func FuzzC11Ncbi(f *testing.F) {
	for _, in := range []string{"", "#\n", " A C\nA 1 2\nC 3 4\n", "A\nA x\n", "*\n* 1\n"} {
		f.Add([]byte(in))
	}
	fuzzTotal(f, "ncbi")
}
