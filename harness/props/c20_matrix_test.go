package props

// C20: substitution matrices are built faithfully from tables and by mirroring.

import (
	"bytes"
	"fmt"
	"go/ast"
	"go/constant"
	"go/format"
	"go/parser"
	"go/token"
	"io"
	"math"
	"sort"
	"strconv"
	"strings"
	"testing"

	"github.com/fluhus/biostuff/align"
	"github.com/fluhus/biostuff/formats/smtext"
	"pgregory.net/rapid"
	"verif/harness/internal/fault"
	"verif/harness/internal/gen"
)

// NcbiLayout describes how a table is rendered. All lists are applied cyclically.
type NcbiLayout struct {
	Seps      []string `json:"seps"`    // separators between tokens, runs over {space, TAB, FF, CR}
	Lead      []string `json:"lead"`    // leading whitespace of data lines
	Trail     []string `json:"trail"`   // trailing whitespace of data lines
	Before    []int    `json:"before"`  // number of comment/empty lines before each data line
	Formats   []string `json:"formats"` // score spelling: d g e f +g +d
	CRLF      bool     `json:"crlf"`
	NoFinalNL bool     `json:"no_final_nl"`
	After     int      `json:"after"` // comment/empty lines after the last row
	// LongComment > 0: a comment line of that many bytes precedes the header.
	// LongSep > 0: the separator before the last score of the first row is that many spaces.
	LongComment int   `json:"long_comment,omitempty"`
	LongSep     int   `json:"long_sep,omitempty"`
	Chunks      []int `json:"chunks,omitempty"` // read schedule of the io.Reader (cyclic; empty = from memory)
}

// NcbiCorruption damages one token of a valid table.
type NcbiCorruption struct {
	Kind string `json:"kind"` // drop | extra | collabel | badscore | rowlabel2 | collabel2 | colmerge | rowlabelutf8 | collabelutf8
	Row  int    `json:"row"`
	Col  int    `json:"col"`
	Text string `json:"text"`
}

type MatEntry struct {
	A int   `json:"a"`
	B int   `json:"b"`
	V gen.F `json:"v"`
}

type C20Case struct {
	Kind    string          `json:"kind"` // ncbi | sym | gostring
	Rows    gen.B           `json:"rows,omitempty"`
	Cols    gen.B           `json:"cols,omitempty"`
	Scores  [][]gen.F       `json:"scores,omitempty"`
	Layout  *NcbiLayout     `json:"layout,omitempty"`
	Corrupt *NcbiCorruption `json:"corrupt,omitempty"`
	Entries []MatEntry      `json:"entries,omitempty"`
	// kind "raw": a literal table text; ReadNCBI must return exactly Entries, or - with WantErr -
	// an error and no matrix
	Raw     gen.B `json:"raw,omitempty"`
	WantErr bool  `json:"want_err,omitempty"`
	// FirstCall: the named function is run as the first call into its package in a fresh process
	FirstCall string `json:"first_call,omitempty"`
}

func validLabel(b byte) bool {
	switch b {
	case '\t', '\n', '\f', '\r', ' ', '#', 255:
		return false
	}
	return true
}

func genLabels(t *rapid.T, n int, label string) gen.B {
	pool := rapid.SampledFrom([]string{"ACGT", "ARNDCQEGHILKMFPSTWYVBZX*", "ab*", "*\x80\xe9\x00!\"'\\~"}).Draw(t, label+"pool")
	seen := map[byte]bool{}
	var out []byte
	for len(out) < n {
		var b byte
		if rapid.IntRange(0, 5).Draw(t, label+"any") == 0 {
			b = rapid.Byte().Draw(t, label+"byte")
		} else {
			b = pool[rapid.IntRange(0, len(pool)-1).Draw(t, label+"idx")]
		}
		if !validLabel(b) || seen[b] {
			// deterministic fallback: next free valid byte
			for c := 33; c < 255; c++ {
				if validLabel(byte(c)) && !seen[byte(c)] {
					b = byte(c)
					break
				}
			}
		}
		seen[b] = true
		out = append(out, b)
	}
	return out
}

func genScore(t *rapid.T) gen.F {
	switch rapid.IntRange(0, 4).Draw(t, "scorekind") {
	case 0, 1:
		return gen.F(rapid.IntRange(-20, 20).Draw(t, "int"))
	case 2:
		return gen.F(float64(rapid.IntRange(-400, 400).Draw(t, "num")) / float64(rapid.SampledFrom([]int{2, 4, 8, 10, 100, 1000}).Draw(t, "den")))
	case 3:
		return gen.F(gen.FiniteFloats().Draw(t, "float"))
	}
	return gen.F(rapid.SampledFrom([]float64{0, 1e21, -1e-7, 1e100, 0.1, -0.5, 1e-300, 123456789}).Draw(t, "special"))
}

var wsRuns = []string{" ", "  ", "\t", " \t ", "\f", "\r", "   ", "\t\t"}

func genNcbiLayout(t *rapid.T) *NcbiLayout {
	ws := rapid.SampledFrom(wsRuns)
	opt := rapid.SampledFrom(append([]string{"", "", ""}, wsRuns...))
	return &NcbiLayout{
		Seps:        rapid.SliceOfN(ws, 1, 4).Draw(t, "seps"),
		Lead:        rapid.SliceOfN(opt, 1, 3).Draw(t, "lead"),
		Trail:       rapid.SliceOfN(opt, 1, 3).Draw(t, "trail"),
		Before:      rapid.SliceOfN(rapid.SampledFrom([]int{0, 0, 0, 1, 2}), 1, 4).Draw(t, "before"),
		Formats:     rapid.SliceOfN(rapid.SampledFrom([]string{"d", "g", "e", "f", "+g", "+d"}), 1, 4).Draw(t, "formats"),
		CRLF:        rapid.Bool().Draw(t, "crlf"),
		NoFinalNL:   rapid.Bool().Draw(t, "nofinal"),
		After:       rapid.SampledFrom([]int{0, 0, 1, 3}).Draw(t, "after"),
		LongComment: rapid.SampledFrom([]int{0, 0, 0, 0, 0, 0, 0, 0, 0, 5000, 70000}).Draw(t, "longComment"),
		LongSep:     rapid.SampledFrom([]int{0, 0, 0, 0, 0, 0, 0, 0, 0, 4100, 66000}).Draw(t, "longSep"),
		Chunks:      rapid.SliceOfN(rapid.SampledFrom([]int{1, 2, 3, 7, 64, 4096}), 0, 3).Draw(t, "chunks"),
	}
}

func genC20(t *rapid.T, thorough bool) C20Case {
	kind := rapid.SampledFrom([]string{"ncbi", "ncbi", "ncbi-bad", "sym", "sym", "gostring"}).Draw(t, "kind")
	switch kind {
	case "sym", "gostring":
		c := C20Case{Kind: kind}
		alpha := rapid.SampledFrom([][]int{{'a', 'b'}, {'a', 'b', 'c', 255}, {0, 1, '\'', '\\', 0x80, 0xe9, 254, 255, 'A', '\n'}}).Draw(t, "alphabet")
		n := rapid.OneOf(rapid.IntRange(0, 12), rapid.IntRange(0, 60)).Draw(t, "n")
		for i := 0; i < n; i++ {
			e := MatEntry{A: rapid.SampledFrom(alpha).Draw(t, "a"), B: rapid.SampledFrom(alpha).Draw(t, "b"), V: genScore(t)}
			if kind == "sym" && len(c.Entries) > 0 && rapid.IntRange(0, 2).Draw(t, "mirror") == 0 {
				// mirror an earlier entry, with the same or a different score
				p := c.Entries[rapid.IntRange(0, len(c.Entries)-1).Draw(t, "which")]
				e.A, e.B = p.B, p.A
				if rapid.IntRange(0, 5).Draw(t, "ulp") == 3 {
					// different scores, however close, are a conflict
					e.V = gen.F(math.Nextafter(float64(p.V), math.Inf(1)))
				} else if rapid.Bool().Draw(t, "same") {
					e.V = p.V
					if p.V == 0 && rapid.Bool().Draw(t, "negzero") {
						e.V = gen.F(math.Copysign(0, -1)) // 0 and -0 are equal scores
					}
				}
			}
			c.Entries = append(c.Entries, e)
		}
		return c
	}
	c := C20Case{Kind: "ncbi"}
	nr := rapid.SampledFrom([]int{1, 1, 2, 3, 4, 6, 24}).Draw(t, "nrows")
	nc := rapid.SampledFrom([]int{1, 2, 3, 4, 6, 24}).Draw(t, "ncols")
	if rapid.Bool().Draw(t, "square") {
		nr = nc
	}
	c.Cols = genLabels(t, nc, "col")
	if nr == nc && rapid.Bool().Draw(t, "sameLabels") {
		c.Rows = bytes.Clone(c.Cols)
	} else {
		c.Rows = genLabels(t, nr, "row")
	}
	for i := 0; i < nr; i++ {
		row := make([]gen.F, nc)
		for j := range row {
			row[j] = genScore(t)
		}
		c.Scores = append(c.Scores, row)
	}
	c.Layout = genNcbiLayout(t)
	if kind == "ncbi-bad" {
		c.Corrupt = &NcbiCorruption{
			Kind: rapid.SampledFrom([]string{"drop", "extra", "collabel", "badscore", "rowlabel2", "collabel2", "colmerge", "rowlabelutf8", "collabelutf8"}).Draw(t, "ckind"),
			Row:  rapid.IntRange(0, nr-1).Draw(t, "crow"),
			Col:  rapid.IntRange(0, nc-1).Draw(t, "ccol"),
			Text: rapid.SampledFrom([]string{"1.2.3", "--1", "x1", "1e", "abc", "1,5", "0x", "++2", "1e+", ".", "-"}).Draw(t, "ctext"),
		}
	}
	return c
}

func formatScore(v float64, f string) string {
	plus := strings.HasPrefix(f, "+")
	f = strings.TrimPrefix(f, "+")
	var s string
	switch f {
	case "d":
		if v == math.Trunc(v) && math.Abs(v) < 1e15 {
			s = strconv.FormatInt(int64(v), 10)
		} else {
			s = strconv.FormatFloat(v, 'g', -1, 64)
		}
	case "e":
		s = strconv.FormatFloat(v, 'e', -1, 64)
	case "f":
		s = strconv.FormatFloat(v, 'f', -1, 64)
		if len(s) > 60 {
			s = strconv.FormatFloat(v, 'g', -1, 64)
		}
	default:
		s = strconv.FormatFloat(v, 'g', -1, 64)
	}
	if plus && v >= 0 && !strings.HasPrefix(s, "+") && !(v == 0 && math.Signbit(v)) {
		s = "+" + s
	}
	return s
}

func renderNcbi(c C20Case) []byte {
	l := c.Layout
	term := "\n"
	if l.CRLF {
		term = "\r\n"
	}
	var buf bytes.Buffer
	line := 0
	tok := 0
	filler := func(n int) {
		for i := 0; i < n; i++ {
			if (line+i)%2 == 0 {
				buf.WriteString("# comment " + strconv.Itoa(i) + " A 1 2" + term)
			} else {
				buf.WriteString(term)
			}
		}
	}
	writeLine := func(tokens []string) {
		filler(l.Before[line%len(l.Before)])
		buf.WriteString(l.Lead[line%len(l.Lead)])
		for i, tk := range tokens {
			if i > 0 {
				if l.LongSep > 0 && line == 1 && i == len(tokens)-1 {
					buf.WriteString(strings.Repeat(" ", l.LongSep))
				} else {
					buf.WriteString(l.Seps[tok%len(l.Seps)])
				}
				tok++
			}
			buf.WriteString(tk)
		}
		buf.WriteString(l.Trail[line%len(l.Trail)])
		buf.WriteString(term)
		line++
	}
	label := func(b byte) string { return string([]byte{b}) }
	if l.LongComment > 0 {
		buf.WriteString("#" + strings.Repeat("c", l.LongComment-1) + term)
	}
	var header []string
	for _, b := range c.Cols {
		header = append(header, label(b))
	}
	cr := c.Corrupt
	if cr != nil && cr.Kind == "collabel" {
		header = append(header, "Q")
	}
	if cr != nil && cr.Kind == "collabel2" {
		header[cr.Col%len(header)] += "x"
	}
	if cr != nil && cr.Kind == "colmerge" && len(header) >= 2 {
		// two adjacent column labels lose the white space between them: one two-character label,
		// while every row still has one value per original column
		j := cr.Col % (len(header) - 1)
		header = append(header[:j:j], append([]string{header[j] + header[j+1]}, header[j+2:]...)...)
	}
	// a label that is one character but several bytes cannot be a (single-byte) matrix key
	utf8Labels := []string{"\u00e9", "\u20ac", "\u0141", "\U0001F443", "\u00a0"}
	if cr != nil && cr.Kind == "collabelutf8" {
		header[cr.Col%len(header)] = utf8Labels[(cr.Row+cr.Col)%len(utf8Labels)]
	}
	// A header line that starts with '#' in column 0 would be a comment; labels exclude '#'.
	writeLine(header)
	k := 0
	for i, rl := range c.Rows {
		tokens := []string{label(rl)}
		for j := range c.Cols {
			tokens = append(tokens, formatScore(float64(c.Scores[i][j]), l.Formats[k%len(l.Formats)]))
			k++
		}
		if cr != nil && i == cr.Row%len(c.Rows) {
			col := 1 + cr.Col%len(c.Cols)
			switch cr.Kind {
			case "drop":
				tokens = append(tokens[:col:col], tokens[col+1:]...)
			case "extra":
				tokens = append(tokens[:col:col], append([]string{"7"}, tokens[col:]...)...)
			case "badscore":
				tokens[col] = cr.Text
			case "rowlabel2":
				tokens[0] += "y"
			case "rowlabelutf8":
				tokens[0] = utf8Labels[(cr.Row+cr.Col)%len(utf8Labels)]
			}
		}
		writeLine(tokens)
	}
	filler(l.After)
	out := buf.Bytes()
	if l.NoFinalNL {
		out = bytes.TrimRight(out, "\r\n")
	}
	return out
}

// headerCorruption: the kinds that make the header line itself ill-formed ("collabel" only adds
// a column, which is wrong for the rows but a fine header).
var headerCorruption = map[string]bool{"collabel2": true, "colmerge": true, "collabelutf8": true}

func labelKey(b byte) byte {
	if b == '*' {
		return 255
	}
	return b
}

func checkC20(c C20Case, o *Obs) error {
	if c.FirstCall != "" {
		o.NT = true
		o.Class("first call in a fresh process")
		return runFirstCall(c.FirstCall)
	}
	switch c.Kind {
	case "sym":
		return checkSymmetrical(c, o)
	case "gostring":
		return checkGoString(c, o)
	case "raw":
		o.NT = true
		o.Class("literal table text")
		o.ClassIf(c.WantErr, "literal table text that must be rejected")
		var got align.SubstitutionMatrix
		var err error
		if p := catch(func() { got, err = smtext.ReadNCBI(bytes.NewReader(c.Raw)) }); p != nil {
			return fmt.Errorf("ReadNCBI panicked on %q: %v", []byte(c.Raw), p)
		}
		if c.WantErr {
			if err == nil || got != nil {
				return fmt.Errorf("ReadNCBI accepted a table with a row that has the wrong number of values (%d pairs returned, error %v): %q", len(got), err, []byte(c.Raw))
			}
			return nil
		}
		if err != nil {
			return fmt.Errorf("ReadNCBI failed on a well-formed table %q: %v", []byte(c.Raw), err)
		}
		if len(got) != len(c.Entries) {
			return fmt.Errorf("ReadNCBI(%q) returned %d pairs, want %d", []byte(c.Raw), len(got), len(c.Entries))
		}
		for _, e := range c.Entries {
			if v, ok := got[[2]byte{byte(e.A), byte(e.B)}]; !ok || v != float64(e.V) {
				return fmt.Errorf("ReadNCBI(%q): pair (%d,%d) = %v (present %v), want %v", []byte(c.Raw), e.A, e.B, v, ok, float64(e.V))
			}
		}
		return nil
	}
	// domain checks (malformed replay files are ignored)
	if len(c.Cols) == 0 || len(c.Scores) != len(c.Rows) || c.Layout == nil {
		return nil
	}
	l := c.Layout
	if len(l.Seps) == 0 || len(l.Lead) == 0 || len(l.Trail) == 0 || len(l.Before) == 0 || len(l.Formats) == 0 {
		return nil
	}
	for _, s := range l.Seps {
		if s == "" || strings.Trim(s, " \t\f\r") != "" {
			return nil
		}
	}
	for _, s := range append(append([]string{}, l.Lead...), l.Trail...) {
		if strings.Trim(s, " \t\f\r") != "" {
			return nil
		}
	}
	for _, labels := range [][]byte{c.Rows, c.Cols} {
		seen := map[byte]bool{}
		for _, b := range labels {
			if !validLabel(b) || seen[b] {
				return nil
			}
			seen[b] = true
		}
	}
	want := align.SubstitutionMatrix{}
	frac := false
	for i, rl := range c.Rows {
		if len(c.Scores[i]) != len(c.Cols) {
			return nil
		}
		for j, cl := range c.Cols {
			v := float64(c.Scores[i][j])
			if math.IsNaN(v) || math.IsInf(v, 0) {
				return nil
			}
			if v != math.Trunc(v) {
				frac = true
			}
			want[[2]byte{labelKey(rl), labelKey(cl)}] = v
		}
	}
	if c.Corrupt != nil && len(c.Rows) == 0 && !headerCorruption[c.Corrupt.Kind] {
		return nil // a corruption of a row needs a row; a corrupt header is corrupt on its own
	}
	if c.Corrupt != nil && c.Corrupt.Kind == "colmerge" && len(c.Cols) < 2 {
		return nil
	}
	o.ClassIf(len(c.Rows) != len(c.Cols), "rectangular")
	o.ClassIf(bytes.IndexByte(c.Rows, '*') >= 0 || bytes.IndexByte(c.Cols, '*') >= 0, "has *")
	o.ClassIf(frac, "fractional")
	o.ClassIf(strings.Contains(strings.Join(l.Seps, ""), "\t"), "tabs")
	o.ClassIf(l.CRLF, "crlf")
	hasHigh := false
	for _, b := range append(bytes.Clone(c.Rows), c.Cols...) {
		if b >= 0x80 {
			hasHigh = true
		}
	}
	o.ClassIf(hasHigh, "byte >= 0x80 label")
	comments := l.After > 0
	for _, b := range l.Before {
		comments = comments || b > 0
	}
	o.ClassIf(comments, "comments/empty lines")
	text := renderNcbi(c)
	var got align.SubstitutionMatrix
	var err error
	var rd io.Reader = bytes.NewReader(text)
	if len(l.Chunks) > 0 {
		for _, s := range l.Chunks {
			if s < 1 {
				return nil
			}
		}
		rd = &fault.Chunked{Data: text, Sizes: l.Chunks, EOFWithData: len(text)%2 == 0}
		o.Class("chunked reader")
	}
	o.ClassIf(l.LongComment > 65536 || l.LongSep > 65536, "line > 64 KiB")
	if p := catch(func() { got, err = smtext.ReadNCBI(rd) }); p != nil {
		return fmt.Errorf("ReadNCBI panicked on %q: %v", text, p)
	}
	if c.Corrupt != nil {
		o.Class("corrupt:" + c.Corrupt.Kind)
		o.NT = true
		if err == nil {
			return fmt.Errorf("ReadNCBI accepted a table with corruption %+v: %q", *c.Corrupt, text)
		}
		if got != nil {
			return fmt.Errorf("ReadNCBI returned a partial matrix (%d entries) together with error %v", len(got), err)
		}
		return nil
	}
	o.NT = len(c.Rows) >= 2 && len(c.Cols) >= 2
	if err != nil {
		return fmt.Errorf("ReadNCBI failed on a well-formed table %q: %v", text, err)
	}
	if len(got) != len(want) {
		return fmt.Errorf("ReadNCBI returned %d pairs, the table has %d: %q", len(got), len(want), text)
	}
	for k, v := range want {
		g, ok := got[k]
		if !ok || g != v {
			return fmt.Errorf("ReadNCBI: pair (%q,%q) = %v (present %v), want %v; table %q", k[0], k[1], g, ok, v, text)
		}
	}
	return nil
}

func entriesToMatrix(es []MatEntry, allowInf bool) (align.SubstitutionMatrix, bool) {
	m := align.SubstitutionMatrix{}
	for _, e := range es {
		v := float64(e.V)
		if math.IsNaN(v) || (math.IsInf(v, 0) && !allowInf) || e.A < 0 || e.A > 255 || e.B < 0 || e.B > 255 {
			return nil, false
		}
		m[[2]byte{byte(e.A), byte(e.B)}] = v
	}
	return m, true
}

func checkSymmetrical(c C20Case, o *Obs) error {
	m, ok := entriesToMatrix(c.Entries, true)
	if !ok {
		return nil
	}
	orig := align.SubstitutionMatrix{}
	for k, v := range m {
		orig[k] = v
	}
	conflict, mirrored := false, false
	for k, v := range m {
		if k[0] == k[1] {
			continue
		}
		if v2, ok := m[[2]byte{k[1], k[0]}]; ok {
			mirrored = true
			if v2 != v {
				conflict = true
			}
		}
	}
	o.NT = len(m) >= 2
	o.ClassIf(conflict, "conflict")
	o.ClassIf(mirrored && !conflict, "mirrored pair, equal scores")
	o.ClassIf(len(m) == 0, "empty matrix")
	var res align.SubstitutionMatrix
	p := catch(func() { res = m.Symmetrical() })
	if len(m) != len(orig) {
		return fmt.Errorf("Symmetrical changed the receiver's size: %d -> %d", len(orig), len(m))
	}
	for k, v := range orig {
		if g, ok := m[k]; !ok || g != v {
			return fmt.Errorf("Symmetrical changed the receiver at %v", k)
		}
	}
	if conflict {
		if p == nil {
			return fmt.Errorf("Symmetrical did not panic on conflicting mirrored pairs: %v", c.Entries)
		}
		return nil
	}
	if p != nil {
		return fmt.Errorf("Symmetrical panicked without a conflict: %v (entries %v)", p, c.Entries)
	}
	want := map[[2]byte]float64{}
	for k, v := range orig {
		want[k] = v
		want[[2]byte{k[1], k[0]}] = v
	}
	if len(res) != len(want) {
		return fmt.Errorf("Symmetrical result has %d pairs, want %d (entries %v)", len(res), len(want), c.Entries)
	}
	for k, v := range want {
		if g, ok := res[k]; !ok || g != v {
			return fmt.Errorf("Symmetrical result (%d,%d) = %v (present %v), want %v", k[0], k[1], g, ok, v)
		}
	}
	// the result is a new matrix: a key added to it must not appear in the receiver
	for a := 0; a < 256; a++ {
		k := [2]byte{byte(a), byte(a)}
		if _, ok := want[k]; ok {
			continue
		}
		res[k] = 42
		if _, ok := m[k]; ok {
			return fmt.Errorf("Symmetrical returned the receiver itself (or a matrix sharing its storage)")
		}
		break
	}
	return nil
}

func evalKey(e ast.Expr) (int, error) {
	switch x := e.(type) {
	case *ast.Ident:
		if x.Name == "Gap" {
			return 255, nil
		}
		return 0, fmt.Errorf("unknown identifier %s", x.Name)
	case *ast.BasicLit:
		if x.Kind != token.CHAR && x.Kind != token.INT {
			return 0, fmt.Errorf("key literal %s is not a character", x.Value)
		}
		v := constant.MakeFromLiteral(x.Value, x.Kind, 0)
		n, ok := constant.Int64Val(v)
		if !ok || v.Kind() == constant.Unknown {
			return 0, fmt.Errorf("bad key literal %s", x.Value)
		}
		return int(n), nil
	}
	return 0, fmt.Errorf("unexpected key expression %T", e)
}

func evalScore(e ast.Expr) (float64, error) {
	switch x := e.(type) {
	case *ast.UnaryExpr:
		v, err := evalScore(x.X)
		if err != nil {
			return 0, err
		}
		switch x.Op {
		case token.SUB:
			return -v, nil
		case token.ADD:
			return v, nil
		}
		return 0, fmt.Errorf("unexpected operator %s", x.Op)
	case *ast.BasicLit:
		if x.Kind != token.INT && x.Kind != token.FLOAT {
			return 0, fmt.Errorf("score literal %s is not numeric", x.Value)
		}
		v := constant.MakeFromLiteral(x.Value, x.Kind, 0)
		if v.Kind() == constant.Unknown {
			return 0, fmt.Errorf("bad score literal %s", x.Value)
		}
		f, _ := constant.Float64Val(constant.ToFloat(v))
		return f, nil
	}
	return 0, fmt.Errorf("unexpected score expression %T", e)
}

func checkGoString(c C20Case, o *Obs) error {
	m, ok := entriesToMatrix(c.Entries, false)
	if !ok {
		return nil
	}
	o.NT = len(m) >= 2
	o.ClassIf(len(m) == 0, "empty matrix")
	if err := verifyGoString(m); err != nil {
		return err
	}
	if len(m) == 0 {
		return nil
	}
	// The same map printed again after the program changed it in place (a score overwritten, as
	// genncbi does with the gap-open entry after reading a table; a pair replaced by another):
	// same object, same number of pairs, different content.
	keys := make([][2]byte, 0, len(m))
	for k := range m {
		keys = append(keys, k)
	}
	sort.Slice(keys, func(i, j int) bool {
		return keys[i][0] < keys[j][0] || keys[i][0] == keys[j][0] && keys[i][1] < keys[j][1]
	})
	k0 := keys[len(keys)/2]
	if v := m[k0]; math.IsInf(v, 0) || math.IsNaN(v) {
		m[k0] = 7
	} else {
		m[k0] = v + 1.5
	}
	if err := verifyGoString(m); err != nil {
		return fmt.Errorf("printed again after one score was overwritten in place: %w", err)
	}
	for b := 0; b < 256 && len(m) < 65536; b++ {
		nk := [2]byte{k0[1] + byte(b), k0[0] ^ 0x55}
		if _, taken := m[nk]; !taken {
			delete(m, k0)
			m[nk] = -2.25
			break
		}
	}
	if err := verifyGoString(m); err != nil {
		return fmt.Errorf("printed again after one pair was replaced by another: %w", err)
	}
	return nil
}

// verifyGoString checks what GoString prints for m against m.
func verifyGoString(m align.SubstitutionMatrix) error {
	var text string
	if p := catch(func() { text = m.GoString() }); p != nil {
		return fmt.Errorf("GoString panicked: %v", p)
	}
	if via := fmt.Sprintf("%#v", m); via != text {
		return fmt.Errorf("%%#v prints %q, GoString returns %q", via, text)
	}
	expr, err := parser.ParseExpr(text)
	if err != nil {
		return fmt.Errorf("GoString output does not parse as a Go expression: %v\n%s", err, text)
	}
	lit, ok := expr.(*ast.CompositeLit)
	if !ok {
		return fmt.Errorf("GoString output is not a composite literal: %s", text)
	}
	if id, ok := lit.Type.(*ast.Ident); !ok || id.Name != "SubstitutionMatrix" {
		return fmt.Errorf("GoString literal type is not SubstitutionMatrix: %s", text)
	}
	if len(lit.Elts) != len(m) {
		return fmt.Errorf("GoString lists %d pairs, the matrix has %d:\n%s", len(lit.Elts), len(m), text)
	}
	prev := -1
	for i, el := range lit.Elts {
		kv, ok := el.(*ast.KeyValueExpr)
		if !ok {
			return fmt.Errorf("element %d is not key:value", i)
		}
		kl, ok := kv.Key.(*ast.CompositeLit)
		if !ok || len(kl.Elts) != 2 {
			return fmt.Errorf("element %d: key is not a pair", i)
		}
		k0, err := evalKey(kl.Elts[0])
		if err != nil {
			return fmt.Errorf("element %d: %v", i, err)
		}
		k1, err := evalKey(kl.Elts[1])
		if err != nil {
			return fmt.Errorf("element %d: %v", i, err)
		}
		if k0 < 0 || k0 > 255 || k1 < 0 || k1 > 255 {
			return fmt.Errorf("element %d: key (%d,%d) does not fit a byte", i, k0, k1)
		}
		ord := k0*256 + k1
		if ord <= prev {
			return fmt.Errorf("element %d: key (%d,%d) is not in strictly ascending order (or listed twice):\n%s", i, k0, k1, text)
		}
		prev = ord
		want, ok := m[[2]byte{byte(k0), byte(k1)}]
		if !ok {
			return fmt.Errorf("element %d: pair (%d,%d) is not in the matrix", i, k0, k1)
		}
		got, err := evalScore(kv.Value)
		if err != nil {
			return fmt.Errorf("element %d: %v", i, err)
		}
		if got != want {
			return fmt.Errorf("element %d: pair (%d,%d) listed with score %v, want %v", i, k0, k1, got, want)
		}
	}
	src := fmt.Sprintf("package align\n\nfunc init() {\n%s = %#v}", "X", m)
	if _, err := format.Source([]byte(src)); err != nil {
		return fmt.Errorf("the genncbi wrapper around GoString is rejected by go/format: %v\n%s", err, src)
	}
	return nil
}

func exhaustiveC20(thorough bool, emit func(C20Case) bool) {
	if !emit(C20Case{FirstCall: "Symmetrical"}) {
		return
	}
	if !emit(C20Case{FirstCall: "GoString"}) {
		return
	}
	if !emit(C20Case{FirstCall: "ReadNCBI"}) {
		return
	}
	plain := &NcbiLayout{Seps: []string{" "}, Lead: []string{""}, Trail: []string{""}, Before: []int{0}, Formats: []string{"g"}}
	base := C20Case{Kind: "ncbi", Rows: gen.B("AC*"), Cols: gen.B("ACG*"),
		Scores: [][]gen.F{{1, -2, 0.5, -4}, {-2, 1, 0, -4}, {-4, -4, -4, 1}}, Layout: plain}
	if !emit(base) {
		return
	}
	// the documented example and layout variants of it
	for _, seps := range wsRuns {
		for _, lead := range []string{"", " ", "\t"} {
			for _, f := range []string{"d", "g", "e", "f", "+g"} {
				for flags := 0; flags < 4; flags++ {
					c := base
					c.Layout = &NcbiLayout{Seps: []string{seps, " "}, Lead: []string{lead, ""}, Trail: []string{"", lead}, Before: []int{flags, 0, 1},
						Formats: []string{f}, CRLF: flags&1 != 0, NoFinalNL: flags&2 != 0, After: flags}
					if !emit(c) {
						return
					}
				}
			}
		}
	}
	// long comment lines and long whitespace runs (lines beyond 4 KiB and 64 KiB), chunked delivery
	for _, n := range []int{4095, 4096, 4097, 65535, 65536, 65537, 70000, 1 << 20} {
		for v := 0; v < 3; v++ {
			c := base
			c.Layout = &NcbiLayout{Seps: []string{" "}, Lead: []string{""}, Trail: []string{""}, Before: []int{0}, Formats: []string{"g"}}
			switch v {
			case 0:
				c.Layout.LongComment = n
			case 1:
				c.Layout.LongSep = n
			default:
				c.Layout.LongComment, c.Layout.LongSep, c.Layout.Chunks, c.Layout.CRLF = n, n, []int{4096, 1}, true
			}
			if !emit(c) {
				return
			}
		}
	}
	for _, chunks := range [][]int{{1}, {2}, {3, 1}, {5}, {4096}} {
		c := base
		c.Layout = &NcbiLayout{Seps: []string{" \t"}, Lead: []string{" "}, Trail: []string{""}, Before: []int{1, 0}, Formats: []string{"g"}, CRLF: true, Chunks: chunks}
		if !emit(c) {
			return
		}
	}
	// every single-token corruption of the base table
	for _, kind := range []string{"drop", "extra", "collabel", "badscore", "rowlabel2", "collabel2", "colmerge", "rowlabelutf8", "collabelutf8"} {
		for r := 0; r < 3; r++ {
			for col := 0; col < 4; col++ {
				for _, txt := range []string{"1.2.3", "--1", "x1", "1e", "abc", "1,5"} {
					c := base
					c.Corrupt = &NcbiCorruption{Kind: kind, Row: r, Col: col, Text: txt}
					if !emit(c) {
						return
					}
					if headerCorruption[kind] && r == 0 {
						// the corrupt header alone, without any row
						h := c
						h.Rows, h.Scores = nil, nil
						if !emit(h) {
							return
						}
					}
					if kind != "badscore" {
						break
					}
				}
			}
		}
	}
	// every valid label byte as a row and column label
	for b := 0; b < 256; b++ {
		if !validLabel(byte(b)) {
			continue
		}
		c := C20Case{Kind: "ncbi", Rows: gen.B{byte(b), 'Q'}, Cols: gen.B{'R', byte(b)}, Scores: [][]gen.F{{1, 2}, {3, -4.25}}, Layout: plain}
		if !emit(c) {
			return
		}
	}
	// Symmetrical / GoString on all matrices with up to 3 entries over keys {a,b} x {a,b} and scores {1,2}
	keys := [][2]int{{'a', 'a'}, {'a', 'b'}, {'b', 'a'}, {'b', 'b'}, {'a', 255}, {255, 'a'}}
	var rec func(es []MatEntry, from int) bool
	rec = func(es []MatEntry, from int) bool {
		if !emit(C20Case{Kind: "sym", Entries: append([]MatEntry(nil), es...)}) || !emit(C20Case{Kind: "gostring", Entries: append([]MatEntry(nil), es...)}) {
			return false
		}
		if len(es) == 4 {
			return true
		}
		for i := from; i < len(keys); i++ {
			for _, v := range []gen.F{1, 0, gen.F(math.Copysign(0, -1))} {
				if !rec(append(es, MatEntry{A: keys[i][0], B: keys[i][1], V: v}), i+1) {
					return false
				}
			}
		}
		return true
	}
	rec(nil, 0)
	// mirrored scores one ulp (or one unit in 1e15) apart are different scores
	for _, v := range []float64{0.3, 1, 1e15, -2.5, 1e-300} {
		for _, w := range []float64{math.Nextafter(v, math.Inf(1)), math.Nextafter(v, math.Inf(-1)), v + v*1e-12} {
			if w == v {
				continue
			}
			if !emit(C20Case{Kind: "sym", Entries: []MatEntry{{A: 'a', B: 'b', V: gen.F(v)}, {A: 'b', B: 'a', V: gen.F(w)}, {A: 'c', B: 'c', V: 1}}}) {
				return
			}
		}
	}
	// infinite scores (a table may say "-inf" to forbid a pair): equal infinities are equal scores
	inf := math.Inf(1)
	for _, es := range [][]MatEntry{
		{{A: 'a', B: 'b', V: gen.F(inf)}, {A: 'b', B: 'a', V: gen.F(inf)}},
		{{A: 'a', B: 'b', V: gen.F(-inf)}, {A: 'b', B: 'a', V: gen.F(-inf)}, {A: 'a', B: 'a', V: 1}},
		{{A: 'a', B: 'b', V: gen.F(inf)}, {A: 'b', B: 'a', V: gen.F(-inf)}},
		{{A: 'a', B: 'b', V: gen.F(-inf)}, {A: 'b', B: 'a', V: -4}},
		{{A: 'a', B: 255, V: gen.F(-inf)}, {A: 255, B: 'a', V: gen.F(-inf)}, {A: 'b', B: 255, V: -1}},
	} {
		if !emit(C20Case{Kind: "sym", Entries: es}) {
			return
		}
	}
	// fixed-width tables (right-aligned columns, every line of the same length, as the NCBI files
	// are laid out): valid, and with one extra value placed inside the padding of one row so that
	// the row keeps its length - a row with the wrong number of values
	for _, w := range []int{3, 4, 5, 6, 8} {
		labels := []byte("ARN*")
		cell := func(t string) string { return strings.Repeat(" ", w-len(t)) + t }
		lines := []string{" "}
		var entries []MatEntry
		for _, c := range labels {
			lines[0] += cell(string(c))
		}
		for i, r := range labels {
			line := string(r)
			for j, c := range labels {
				v := (i*7+j*3)%13 - 6
				line += cell(fmt.Sprint(v))
				entries = append(entries, MatEntry{A: int(labelKey(r)), B: int(labelKey(c)), V: gen.F(float64(v))})
			}
			lines = append(lines, line)
		}
		for _, term := range []string{"\n", "\r\n"} {
			good := "# fixed width " + fmt.Sprint(w) + term + strings.Join(lines, term) + term
			if !emit(C20Case{Kind: "raw", Raw: gen.B(good), Entries: entries}) {
				return
			}
			for li := 1; li < len(lines); li++ {
				line := lines[li]
				for pos := 1; pos+2 < len(line); pos++ {
					if line[pos-1] == ' ' && line[pos] == ' ' && line[pos+1] == ' ' {
						bad := append([]string{}, lines...)
						bad[li] = line[:pos] + "9" + line[pos+1:]
						if !emit(C20Case{Kind: "raw", Raw: gen.B(strings.Join(bad, term) + term), WantErr: true}) {
							return
						}
					}
				}
			}
		}
	}
	// a long-running process: more calls of Symmetrical than a 16-bit counter holds. Round 0 uses
	// every ordered pair of bytes (x,y), x != y, once, as the only off-diagonal pair of a small
	// matrix; round 1 - exactly 65536 calls later each - uses the mirrored pair (y,x) with another
	// score. Each call is a call like the first: nothing an earlier call saw is a conflict now.
	for round := 0; round < 2; round++ {
		for q := 0; q < 65536; q++ {
			x, y := q>>8, q&255
			if round == 1 {
				x, y = y, x
			}
			es := []MatEntry{{A: x, B: y, V: gen.F(float64(1 + q%7 + round))}}
			if x == y {
				es = append(es, MatEntry{A: x, B: x ^ 1, V: 2}, MatEntry{A: x ^ 1, B: x, V: 2})
			}
			if !emit(C20Case{Kind: "sym", Entries: es}) {
				return
			}
		}
	}
	// GoString with every byte value as a key and assorted scores
	var es []MatEntry
	scores := []float64{0, 1, -1, 0.5, 1e21, -1e-6, 1e100, 123456.789, -4, 2.5e-300}
	for b := 0; b < 256; b++ {
		es = append(es, MatEntry{A: b, B: 255 - b, V: gen.F(scores[b%len(scores)])})
	}
	sort.Slice(es, func(i, j int) bool { return (es[i].A*7)%256 < (es[j].A*7)%256 })
	if !emit(C20Case{Kind: "gostring", Entries: es}) {
		return
	}
	// complete square tables as NCBI ships them (many columns per row, gap row and column), for
	// GoString (order within a row) and Symmetrical (complete tables, with and without one
	// disagreeing mirrored pair)
	for _, letters := range []string{"ARND", "ARNDCQEGHILKMFPSTWYVBZX\xff", "acgtnACGTN\xff"} {
		var sq []MatEntry
		for i := 0; i < len(letters); i++ {
			for j := 0; j < len(letters); j++ {
				v := float64((i*j)%7 - 3)
				if i == j {
					v = float64(4 + i%5)
				}
				sq = append(sq, MatEntry{A: int(letters[i]), B: int(letters[j]), V: gen.F(v)})
			}
		}
		// in a scrambled insertion order
		sort.SliceStable(sq, func(i, j int) bool { return (sq[i].A*31+sq[i].B*17)%97 < (sq[j].A*31+sq[j].B*17)%97 })
		if !emit(C20Case{Kind: "gostring", Entries: sq}) || !emit(C20Case{Kind: "sym", Entries: sq}) {
			return
		}
		bad := append([]MatEntry(nil), sq...)
		for i := range bad {
			if bad[i].A == int(letters[1]) && bad[i].B == int(letters[2]) {
				bad[i].V += 1
			}
		}
		if !emit(C20Case{Kind: "sym", Entries: bad}) {
			return
		}
	}
}

func propC20() Prop[C20Case] {
	return Prop[C20Case]{ID: "C20", Gen: genC20, Exhaustive: exhaustiveC20, Check: checkC20}
}

func TestC20(t *testing.T) { Run(t, propC20()) }

func FuzzGenC20(f *testing.F) { RunFuzz(f, propC20()) }

func TestRaceC20(t *testing.T) { RunConcurrent(t, propC20(), 4) }
