package props

// Shared pieces of C08, C09 and C10 (sequence alignment).

import (
	"bytes"
	"fmt"
	"math"
	"sort"
	"strings"
	"sync"

	"github.com/fluhus/biostuff/align"
	"pgregory.net/rapid"
	"verif/harness/internal/gen"
	"verif/harness/internal/ref"
)

// MatSpec is a JSON-friendly substitution matrix: either a shipped matrix by name, or an
// explicit integer-valued matrix over Letters.
type MatSpec struct {
	Named   string  `json:"named,omitempty"`
	Letters gen.B   `json:"letters,omitempty"`
	Pair    [][]int `json:"pair,omitempty"`    // Pair[i][j] = score(Letters[i], Letters[j])
	DelGap  []int   `json:"del_gap,omitempty"` // score(Letters[i], Gap)
	InsGap  []int   `json:"ins_gap,omitempty"` // score(Gap, Letters[i])
	Open    int     `json:"open,omitempty"`    // score(Gap, Gap)
	// Scale multiplies every score (0 = 1). Scores stay integers that float64 represents
	// exactly (and sums of a few hundred of them too), but not float32.
	Scale int `json:"scale,omitempty"`
	// Div divides every score (0 = 1). With a divisor that is not a power of two the scores
	// are decimal fractions (0.1, 0.3) that binary floating point does not represent exactly:
	// sums then depend on the order of additions in the last bits, and scores are compared
	// with the tolerance tol() instead of exactly.
	Div int `json:"div,omitempty"`
	// Shrink divides every score by 2^Shrink (exactly): a matrix in very small units, e.g.
	// 2^-40 = 9e-13 (log-probabilities scaled down, per-base error rates).
	Shrink int `json:"shrink,omitempty"`
	// OpenDiv divides the gap-open score alone (0 = 1; 2 or 4, so the quotient is exact): whole
	// pair and gap scores with a fractional gap-open such as -0.5.
	OpenDiv int `json:"open_div,omitempty"`
	// InfGaps sets every per-character gap score to -Inf ("gaps are forbidden").
	InfGaps bool `json:"inf_gaps,omitempty"`
}

// tol is the tolerance for score comparisons under this matrix (0: exact).
func (s MatSpec) tol() float64 {
	if s.Named != "" || s.Div <= 1 || s.Div&(s.Div-1) == 0 {
		return 0
	}
	return math.Ldexp(1e-9, -s.Shrink)
}

// near: equal, or within tol (equal infinities are equal).
func near(a, b, tol float64) bool { return a == b || math.Abs(a-b) <= tol }

var shippedMatrices = map[string]func() align.SubstitutionMatrix{
	"Levenshtein": func() align.SubstitutionMatrix { return align.Levenshtein },
	"PAM120":      func() align.SubstitutionMatrix { return align.PAM120 },
	"PAM160":      func() align.SubstitutionMatrix { return align.PAM160 },
	"PAM250":      func() align.SubstitutionMatrix { return align.PAM250 },
	"BLOSUM45":    func() align.SubstitutionMatrix { return align.BLOSUM45 },
	"BLOSUM62":    func() align.SubstitutionMatrix { return align.BLOSUM62 },
	"BLOSUM80":    func() align.SubstitutionMatrix { return align.BLOSUM80 },
}

// Full 256x256-byte matrices of the caller's own that are built like Levenshtein (zero diagonal,
// -1 per gap, -1 for most substitutions, gap-open 0) but score some substitutions differently:
// a case-insensitive edit distance, and edit costs in which a letter against a digit costs 3 and
// a vowel against a vowel nothing. They are not shipped tables and not in shippedNames.
var levLikeOnce = map[string]align.SubstitutionMatrix{}
var levLikeMu sync.Mutex

func levLike(kind string) align.SubstitutionMatrix {
	levLikeMu.Lock()
	defer levLikeMu.Unlock()
	if m, ok := levLikeOnce[kind]; ok {
		return m
	}
	m := align.SubstitutionMatrix{}
	for k, v := range align.Levenshtein {
		m[k] = v
	}
	if kind == "LevByteMatch" {
		// not Levenshtein-like at all: match +2, mismatch -1, gap -2 over all 255 byte values
		for k := range m {
			switch {
			case k[0] == 255 && k[1] == 255:
				m[k] = 0
			case k[0] == 255 || k[1] == 255:
				m[k] = -2
			case k[0] == k[1]:
				m[k] = 2
			default:
				m[k] = -1
			}
		}
		levLikeOnce[kind] = m
		return m
	}
	isDigit := func(c byte) bool { return c >= '0' && c <= '9' }
	isLetter := func(c byte) bool { return c|0x20 >= 'a' && c|0x20 <= 'z' }
	isVowel := func(c byte) bool { return isLetter(c) && strings.IndexByte("aeiou", c|0x20) >= 0 }
	for x := 0; x < 255; x++ {
		for y := 0; y < 255; y++ {
			a, b := byte(x), byte(y)
			if a == b {
				continue
			}
			switch kind {
			case "LevCaseInsensitive":
				if isLetter(a) && isLetter(b) && a|0x20 == b|0x20 {
					m[[2]byte{a, b}] = 0
				}
			case "LevWeighted":
				if isLetter(a) && isDigit(b) || isDigit(a) && isLetter(b) {
					m[[2]byte{a, b}] = -3
				} else if isVowel(a) && isVowel(b) {
					m[[2]byte{a, b}] = 0
				}
			}
		}
	}
	levLikeOnce[kind] = m
	return m
}

func init() {
	shippedMatrices["LevCaseInsensitive"] = func() align.SubstitutionMatrix { return levLike("LevCaseInsensitive") }
	shippedMatrices["LevWeighted"] = func() align.SubstitutionMatrix { return levLike("LevWeighted") }
	shippedMatrices["LevByteMatch"] = func() align.SubstitutionMatrix { return levLike("LevByteMatch") }
}

var shippedNames = []string{"Levenshtein", "PAM120", "PAM160", "PAM250", "BLOSUM45", "BLOSUM62", "BLOSUM80"}

// build returns the matrix for the implementation and an independent copy for the reference.
func (s MatSpec) build() (m align.SubstitutionMatrix, r ref.Matrix, err error) {
	if s.Named != "" {
		f, ok := shippedMatrices[s.Named]
		if !ok {
			return nil, nil, fmt.Errorf("unknown matrix %q", s.Named)
		}
		m = f()
		r = ref.Matrix{}
		for k, v := range m {
			r[k] = v
		}
		return m, r, nil
	}
	n := len(s.Letters)
	if len(s.Pair) != n || len(s.DelGap) != n || len(s.InsGap) != n {
		return nil, nil, fmt.Errorf("malformed matrix spec")
	}
	m = align.SubstitutionMatrix{}
	r = ref.Matrix{}
	sc := float64(max(s.Scale, 1))
	if s.Scale > 1<<30 {
		return nil, nil, fmt.Errorf("scale too large")
	}
	if s.Div > 1 {
		sc /= float64(s.Div)
	}
	if s.Shrink != 0 {
		if s.Shrink < 0 || s.Shrink > 60 {
			return nil, nil, fmt.Errorf("malformed matrix spec")
		}
		sc = math.Ldexp(sc, -s.Shrink)
	}
	defer func() {
		if s.InfGaps {
			for k := range m {
				if (k[0] == 255) != (k[1] == 255) {
					m[k], r[k] = math.Inf(-1), math.Inf(-1)
				}
			}
		}
	}()
	for i := 0; i < n; i++ {
		if len(s.Pair[i]) != n || s.Letters[i] == 255 {
			return nil, nil, fmt.Errorf("malformed matrix spec")
		}
		for j := 0; j < n; j++ {
			k := [2]byte{s.Letters[i], s.Letters[j]}
			m[k], r[k] = sc*float64(s.Pair[i][j]), sc*float64(s.Pair[i][j])
		}
		k := [2]byte{s.Letters[i], 255}
		m[k], r[k] = sc*float64(s.DelGap[i]), sc*float64(s.DelGap[i])
		k = [2]byte{255, s.Letters[i]}
		m[k], r[k] = sc*float64(s.InsGap[i]), sc*float64(s.InsGap[i])
	}
	open := sc * float64(s.Open)
	if s.OpenDiv > 1 {
		if s.OpenDiv != 2 && s.OpenDiv != 4 {
			return nil, nil, fmt.Errorf("malformed matrix spec")
		}
		open /= float64(s.OpenDiv)
	}
	m[[2]byte{255, 255}], r[[2]byte{255, 255}] = open, open
	return m, r, nil
}

// letters returns the alphabet of the matrix (first components other than Gap).
func (s MatSpec) letters() []byte {
	if s.Named == "" {
		return s.Letters
	}
	if strings.HasPrefix(s.Named, "Lev") {
		out := make([]byte, 255)
		for i := range out {
			out[i] = byte(i)
		}
		return out
	}
	set := map[byte]bool{}
	for k := range shippedMatrices[s.Named]() {
		if k[0] != 255 {
			set[k[0]] = true
		}
	}
	var out []byte
	for b := range set {
		out = append(out, b)
	}
	sort.Slice(out, func(i, j int) bool { return out[i] < out[j] })
	return out
}

func (s MatSpec) symmetric() bool {
	if s.Named != "" {
		return true
	}
	for i := range s.Letters {
		if s.DelGap[i] != s.InsGap[i] {
			return false
		}
		for j := range s.Letters {
			if s.Pair[i][j] != s.Pair[j][i] {
				return false
			}
		}
	}
	return true
}

type matOpts struct {
	openLo, openHi int // range of gap-open
	gapLo, gapHi   int // range of per-character gap scores
	openNonZero    bool
}

func genMatSpec(t *rapid.T, o matOpts) MatSpec {
	// ("aAbB", "acgtACGTN": letters in both cases with scores of their own - soft-masked sequence -
	// and an ambiguity code; "a\xe1b\xe2", "A\xc1\x01\x81": bytes together with their twins 0x80 higher)
	pool := rapid.SampledFrom([]string{"ab", "abc", "ACGT", "a", "xyzwv", "a\x00\xfe", "aAbB", "acgtACGTN", "a\xe1b\xe2", "\x41\xc1\x01\x81"}).Draw(t, "letters")
	n := len(pool)
	s := MatSpec{Letters: gen.B(pool)}
	style := rapid.IntRange(0, 3).Draw(t, "style")
	sym := rapid.Bool().Draw(t, "symmetric")
	pair := rapid.IntRange(-6, 6)
	if style == 0 { // match/mismatch style
		mt, mm := rapid.IntRange(0, 6).Draw(t, "match"), rapid.IntRange(-6, 1).Draw(t, "mismatch")
		pair = rapid.SampledFrom([]int{mt, mm})
	}
	s.Pair = make([][]int, n)
	for i := range s.Pair {
		s.Pair[i] = make([]int, n)
	}
	for i := 0; i < n; i++ {
		for j := 0; j < n; j++ {
			if style == 0 {
				if i == j {
					s.Pair[i][j] = rapid.IntRange(0, 6).Draw(t, "diag")
				} else {
					s.Pair[i][j] = rapid.IntRange(-6, 1).Draw(t, "off")
				}
			} else {
				s.Pair[i][j] = pair.Draw(t, "pair")
			}
			if sym && j < i {
				s.Pair[i][j] = s.Pair[j][i]
			}
		}
	}
	g := rapid.IntRange(o.gapLo, o.gapHi)
	s.DelGap, s.InsGap = make([]int, n), make([]int, n)
	uniformGap := rapid.Bool().Draw(t, "uniformGap")
	g0 := g.Draw(t, "gap")
	for i := 0; i < n; i++ {
		if uniformGap {
			s.DelGap[i], s.InsGap[i] = g0, g0
			continue
		}
		s.DelGap[i] = g.Draw(t, "del")
		s.InsGap[i] = s.DelGap[i]
		if !sym {
			s.InsGap[i] = g.Draw(t, "ins")
		}
	}
	s.Scale = rapid.SampledFrom([]int{0, 0, 0, 0, 1000003, 1 << 25, 16777217, 7}).Draw(t, "scale")
	if s.Scale == 0 {
		s.Div = rapid.SampledFrom([]int{0, 0, 0, 0, 0, 8, 10, 10, 3}).Draw(t, "div")
	}
	if rapid.IntRange(0, 15).Draw(t, "shrink") == 7 {
		s.Shrink = rapid.SampledFrom([]int{40, 31, 60}).Draw(t, "by")
	}
	s.InfGaps = rapid.IntRange(0, 24).Draw(t, "infGaps") == 11
	s.Open = rapid.IntRange(o.openLo, o.openHi).Draw(t, "open")
	if o.openNonZero && s.Open == 0 {
		s.Open = o.openLo
		if s.Open == 0 {
			s.Open = -1
		}
	}
	if s.Open != 0 {
		s.OpenDiv = rapid.SampledFrom([]int{0, 0, 0, 0, 0, 2, 4}).Draw(t, "openDiv")
	}
	return s
}

func genSeqOver(t *rapid.T, letters []byte, maxLen int, label string) gen.B {
	n := rapid.OneOf(rapid.IntRange(0, 6), rapid.IntRange(0, maxLen)).Draw(t, label+"len")
	// use a sub-alphabet so that repeats are frequent
	k := rapid.IntRange(1, min(len(letters), 4)).Draw(t, label+"k")
	sub := make([]byte, k)
	for i := range sub {
		sub[i] = letters[rapid.IntRange(0, len(letters)-1).Draw(t, label+"letter")]
	}
	return gen.B(rapid.SliceOfN(rapid.SampledFrom(sub), n, n).Draw(t, label))
}

// related derives b from a by a few edits, so that good alignments with gaps exist.
func genRelated(t *rapid.T, a []byte, letters []byte) gen.B {
	b := bytes.Clone(a)
	edits := rapid.IntRange(0, 4).Draw(t, "edits")
	for e := 0; e < edits; e++ {
		switch rapid.IntRange(0, 2).Draw(t, "edit") {
		case 0:
			if len(b) > 0 {
				i := rapid.IntRange(0, len(b)-1).Draw(t, "delpos")
				l := rapid.IntRange(1, min(3, len(b)-i)).Draw(t, "dellen")
				b = append(b[:i:i], b[i+l:]...)
			}
		case 1:
			i := rapid.IntRange(0, len(b)).Draw(t, "inspos")
			ins := rapid.SliceOfN(rapid.SampledFrom(letters), 1, 3).Draw(t, "ins")
			b = append(b[:i:i], append(ins, b[i:]...)...)
		default:
			if len(b) > 0 {
				b[rapid.IntRange(0, len(b)-1).Draw(t, "subpos")] = rapid.SampledFrom(letters).Draw(t, "sub")
			}
		}
	}
	return gen.B(b)
}

// MatMutation changes one score of the matrix IN PLACE between two calls on the same map
// (a caller may adjust a matrix it already used): Which = "pair" (Letters[I],Letters[J]),
// "del" (Letters[I],Gap) or "ins" (Gap,Letters[I]); the score changes by Delta.
type MatMutation struct {
	Which string `json:"which"`
	I     int    `json:"i"`
	J     int    `json:"j"`
	Delta int    `json:"delta"`
}

// AlignCase is the case type of C08, C09 and C10.
type AlignCase struct {
	A      gen.B        `json:"a"`
	B      gen.B        `json:"b"`
	M      MatSpec      `json:"m"`
	Local  bool         `json:"local"`
	Mutate *MatMutation `json:"mutate,omitempty"`
	// SameSlice: the very same slice is passed as both sequences (B is ignored and taken to be A).
	SameSlice bool `json:"same_slice,omitempty"`
	// Light: a megabase-cell case; only the call itself is checked (no swapped, repeated,
	// self-aligned or refilled calls).
	Light bool `json:"light,omitempty"`
	// FirstCall: the named function is run as the first call into its package in a fresh process
	FirstCall string `json:"first_call,omitempty"`
}

// runAlignOn calls Global or Local on the caller's own two slices (which hold c.A and c.B).
func runAlignOn(c AlignCase, a, b []byte, m align.SubstitutionMatrix) (alignResult, error) {
	var res alignResult
	var steps []align.Step
	name := "Global"
	if c.Local {
		name = "Local"
	}
	p := catch(func() {
		if c.Local {
			steps, res.ai, res.bi, res.score = align.Local(a, b, m)
		} else {
			steps, res.score = align.Global(a, b, m)
		}
	})
	if p != nil {
		return res, fmt.Errorf("%s(%q,%q) panicked: %v", name, []byte(c.A), []byte(c.B), p)
	}
	if !bytes.Equal(a, c.A) || !bytes.Equal(b, c.B) {
		return res, fmt.Errorf("%s modified its input sequences", name)
	}
	res.steps = make([]byte, len(steps))
	for i, s := range steps {
		res.steps[i] = byte(s)
	}
	res.raw = steps
	return res, nil
}

// megaAlignCases: pairs whose table has more than 2^20 cells, with one long gap run across the
// middle of a or of b (a locus against an allele with a 200-base deletion), and pairs around
// lengths of 255/256/257, 511/512/513 and 767/768/769 where one sequence has a few extra
// leading or trailing residues.
func megaAlignCases(opens []int, quick bool, emit func(AlignCase) bool) bool {
	dna := func(match, mismatch, gap, open int) MatSpec {
		m := MatSpec{Letters: gen.B("ACGT"), DelGap: []int{gap, gap, gap, gap}, InsGap: []int{gap, gap, gap, gap}, Open: open}
		for i := 0; i < 4; i++ {
			row := []int{mismatch, mismatch, mismatch, mismatch}
			row[i] = match
			m.Pair = append(m.Pair, row)
		}
		return m
	}
	for _, open := range opens {
		a := realDNA(1300, 71, false, false)
		b := append(bytes.Clone(a[:550]), a[750:]...)
		c := append(bytes.Clone(a[:640]), a[661:]...)
		c[100], c[700], c[1200] = 'A'+'C'-c[100]&1, 'G', 'T'
		for _, pr := range [][2][]byte{{a, b}, {b, a}, {a, c}} {
			for _, local := range []bool{false, true} {
				if !emit(AlignCase{A: pr[0], B: pr[1], M: dna(1, -4, -1, open), Local: local, Light: true}) {
					return false
				}
			}
			if quick {
				break
			}
		}
		// a short query against a long subject: the two halves of a with thousands of foreign
		// letters between them (one insertion run across columns 1025, 2049, ...; mismatches dear)
		for _, na := range []int{32, 300} {
			q := realDNA(na, 77, false, false)
			for _, gap := range []int{700, 3000} {
				filler := bytes.Repeat([]byte("T"), gap)
				for i := range filler {
					filler[i] = "TG"[i%2]
				}
				subj := append(append(bytes.Clone(q[:na/2]), filler...), q[na/2:]...)
				for _, local := range []bool{false, true} {
					if !emit(AlignCase{A: q, B: subj, M: dna(2, -9, -1, open), Local: local, Light: true}) || !emit(AlignCase{A: subj, B: q, M: dna(2, -9, -1, open), Local: local, Light: true}) {
						return false
					}
				}
			}
		}
		// a good part, 200 N (which score badly against everything), an unrelated tail - against a
		// near-copy of the good part: the best local alignment is followed by all-zero rows
		{
			n5 := MatSpec{Letters: gen.B("ACGTN"), DelGap: []int{-2, -2, -2, -2, -2}, InsGap: []int{-2, -2, -2, -2, -2}, Open: open}
			for i := 0; i < 5; i++ {
				row := []int{-3, -3, -3, -3, -4}
				if i < 4 {
					row[i] = 2
				} else {
					row = []int{-4, -4, -4, -4, -4}
				}
				n5.Pair = append(n5.Pair, row)
			}
			good := realDNA(150, 31, false, false)
			tail := realDNA(150, 32, false, false)
			x := append(append(bytes.Clone(good), bytes.Repeat([]byte("N"), 200)...), tail...)
			y := append(bytes.Clone(good[10:140]), 'A', 'C')
			y[40], y[90] = 'N', 'N'
			for _, pr := range [][2][]byte{{x, y}, {y, x}, {append(bytes.Clone(tail), x...), y}} {
				if !emit(AlignCase{A: pr[0], B: pr[1], M: n5, Local: true, Light: true}) {
					return false
				}
			}
		}
		// a shared core with w extra letters at the start of one sequence and at the end of the
		// other: the only optimal alignment runs w diagonals off the corner diagonal
		if open == 0 {
			core := append(append(bytes.Repeat([]byte("A"), 500), 'T'), bytes.Repeat([]byte("A"), 500)...)
			ws := []int{64, 128}
			if !quick {
				ws = []int{63, 64, 65, 128, 256}
			}
			for _, w := range ws {
				x := append(bytes.Clone(core), bytes.Repeat([]byte("G"), w)...)
				y := append(bytes.Repeat([]byte("C"), w), core...)
				if !emit(AlignCase{A: x, B: y, M: MatSpec{Named: "Levenshtein"}, Light: true}) || !emit(AlignCase{A: y, B: x, M: MatSpec{Named: "Levenshtein"}, Light: true}) {
					return false
				}
			}
		}
		for _, n := range []int{255, 256, 257, 511, 512, 513, 767, 768, 769} {
			x := realDNA(n, 90+n%7, false, false)
			for v, y := range [][]byte{append([]byte("GAT"), x...), append(bytes.Clone(x), 'T', 'C')} {
				_ = v
				for _, local := range []bool{false, true} {
					if !emit(AlignCase{A: y, B: x, M: dna(1, -4, -1, open), Local: local, Light: true}) || !emit(AlignCase{A: x, B: y, M: dna(2, -3, -2, open), Local: local, Light: true}) {
						return false
					}
					if open == 0 && !local && !emit(AlignCase{A: y, B: x, M: MatSpec{Named: "Levenshtein"}, Light: true}) {
						return false
					}
				}
			}
		}
	}
	return true
}

// levLikeCases: the caller's own full-byte matrices that resemble Levenshtein.
func levLikeCases(emit func(AlignCase) bool) bool {
	// sequences that together use every byte value 0..254, the last-met one twice
	{
		var a, b []byte
		for i := 0; i < 128; i++ {
			a = append(a, byte(i))
		}
		for i := 254; i >= 128; i-- {
			b = append(b, byte(i))
		}
		b = append(b, 128, 'e', 'a', 128)
		// ... and two sequences of 256 letters that each use all 255 values, the 255th twice
		var x, y []byte
		for i := 0; i < 255; i++ {
			x = append(x, byte(i))
			y = append(y, byte(254-i))
		}
		x, y = append(x, 254), append(y, 254)
		for _, name := range []string{"LevByteMatch", "LevWeighted"} {
			for _, local := range []bool{false, true} {
				if !emit(AlignCase{A: x, B: y, M: MatSpec{Named: name}, Local: local, Light: true}) || !emit(AlignCase{A: y, B: x, M: MatSpec{Named: name}, Local: local, Light: true}) {
					return false
				}
			}
		}
		for _, name := range []string{"LevByteMatch", "LevCaseInsensitive", "LevWeighted", "Levenshtein"} {
			for _, local := range []bool{false, true} {
				if !emit(AlignCase{A: a, B: b, M: MatSpec{Named: name}, Local: local, Light: true}) || !emit(AlignCase{A: b, B: append(bytes.Clone(a), b...), M: MatSpec{Named: name}, Local: local, Light: true}) {
					return false
				}
			}
		}
	}
	words := []string{"", "a", "A", "Kitten", "sITTing", "kitten", "flaw", "LAWN", "b4d", "bad", "a1b2c3", "abcabc", "AEIOU", "uoiea", "x9", "9x", "Saturday", "sunday", "\x00\xfeA", "aA"}
	for _, name := range []string{"LevCaseInsensitive", "LevWeighted"} {
		for _, a := range words {
			for _, b := range words {
				for _, local := range []bool{false, true} {
					if !emit(AlignCase{A: gen.B(a), B: gen.B(b), M: MatSpec{Named: name}, Local: local}) {
						return false
					}
				}
			}
		}
	}
	return true
}

func genMatMutation(t *rapid.T, s MatSpec) *MatMutation {
	if s.Named != "" || len(s.Letters) == 0 || rapid.IntRange(0, 2).Draw(t, "mutate") != 0 {
		return nil
	}
	n := len(s.Letters)
	mu := &MatMutation{Which: rapid.SampledFrom([]string{"pair", "pair", "del", "ins"}).Draw(t, "which"),
		I: rapid.IntRange(0, n-1).Draw(t, "mi"), J: rapid.IntRange(0, n-1).Draw(t, "mj")}
	if mu.Which == "pair" {
		mu.Delta = rapid.SampledFrom([]int{-5, -3, -1, 1, 2, 4}).Draw(t, "delta")
	} else {
		mu.Delta = rapid.IntRange(-3, -1).Draw(t, "delta") // gap scores stay non-positive
	}
	return mu
}

// applyMutation changes the implementation's matrix and the reference copy in place.
func applyMutation(c AlignCase, m align.SubstitutionMatrix, rm ref.Matrix) bool {
	mu := c.Mutate
	if mu == nil || c.M.Named != "" || len(c.M.Letters) == 0 {
		return false
	}
	n := len(c.M.Letters)
	i, j := ((mu.I%n)+n)%n, ((mu.J%n)+n)%n
	var k [2]byte
	switch mu.Which {
	case "pair":
		k = [2]byte{c.M.Letters[i], c.M.Letters[j]}
	case "del":
		k = [2]byte{c.M.Letters[i], 255}
	case "ins":
		k = [2]byte{255, c.M.Letters[i]}
	default:
		return false
	}
	if mu.Which != "pair" && mu.Delta > 0 {
		return false
	}
	// the change is made in the matrix's own unit (Scale, Div, Shrink as in build), so that every
	// score stays a multiple of that unit and sums stay exact
	sc := float64(max(c.M.Scale, 1))
	if c.M.Div > 1 {
		sc /= float64(c.M.Div)
	}
	if c.M.Shrink > 0 && c.M.Shrink <= 60 {
		sc = math.Ldexp(sc, -c.M.Shrink)
	}
	if math.IsInf(m[k], 0) {
		return false // gaps forbidden (-Inf) stay forbidden
	}
	m[k] += sc * float64(mu.Delta)
	rm[k] += sc * float64(mu.Delta)
	return true
}

type alignResult struct {
	steps  []byte
	ai, bi int
	score  float64
	raw    []align.Step // the slice the library returned
}

// stepsUnchanged verifies that the slice returned earlier still holds the same steps (a later
// call must not overwrite a result the caller still holds).
func (r alignResult) stepsUnchanged() error {
	for i, s := range r.raw {
		if i >= len(r.steps) || byte(s) != r.steps[i] {
			return fmt.Errorf("the steps returned by an earlier call were overwritten by a later call: were %s, are now %v", stepString(r.steps), r.raw)
		}
	}
	return nil
}

// runAlign calls Global or Local, checking that inputs are untouched and nothing panics.
func runAlign(c AlignCase, m align.SubstitutionMatrix) (alignResult, error) {
	// a and b are windows of one buffer (with a byte between them): anything written past the
	// end of a would corrupt b.
	ar := newArena(c.A, []byte("|"), c.B)
	a, b := ar.field(0), ar.field(2)
	if c.SameSlice {
		b = a
	}
	nkeys := len(m)
	var res alignResult
	var steps []align.Step
	p := catch(func() {
		if c.Local {
			steps, res.ai, res.bi, res.score = align.Local(a, b, m)
		} else {
			steps, res.score = align.Global(a, b, m)
		}
	})
	name := "Global"
	if c.Local {
		name = "Local"
	}
	if p != nil {
		return res, fmt.Errorf("%s(%q,%q) panicked: %v", name, []byte(c.A), []byte(c.B), p)
	}
	if !bytes.Equal(a, c.A) || !bytes.Equal(b, c.B) {
		return res, fmt.Errorf("%s modified its input sequences", name)
	}
	if err := ar.verify(); err != nil {
		return res, fmt.Errorf("%s(%q,%q): %v", name, []byte(c.A), []byte(c.B), err)
	}
	if len(m) != nkeys {
		return res, fmt.Errorf("%s modified the substitution matrix", name)
	}
	res.steps = make([]byte, len(steps))
	for i, s := range steps {
		res.steps[i] = byte(s)
	}
	res.raw = steps
	return res, nil
}

func stepString(steps []byte) string {
	out := make([]byte, len(steps))
	for i, s := range steps {
		switch s {
		case ref.Match:
			out[i] = 'M'
		case ref.Deletion:
			out[i] = 'D'
		case ref.Insertion:
			out[i] = 'I'
		default:
			out[i] = '?'
		}
	}
	return string(out)
}

func gapStats(steps []byte) (gaps, runs, longest int) {
	var prev byte
	cur := 0
	for _, s := range steps {
		if s == ref.Match {
			cur = 0
			prev = s
			continue
		}
		gaps++
		if s != prev {
			runs++
			cur = 0
		}
		cur++
		longest = max(longest, cur)
		prev = s
	}
	return
}

// allSeqs enumerates every sequence over letters up to maxLen.
func allSeqs(letters []byte, maxLen int) [][]byte {
	out := [][]byte{{}}
	for start := 0; ; {
		end := len(out)
		if len(out[end-1]) == maxLen {
			break
		}
		for _, s := range out[start:end] {
			for _, l := range letters {
				out = append(out, append(bytes.Clone(s), l))
			}
		}
		start = end
	}
	return out
}

func matDesc(s MatSpec) string {
	if s.Named != "" {
		return s.Named
	}
	d := fmt.Sprintf("letters=%q pair=%v del=%v ins=%v open=%d", []byte(s.Letters), s.Pair, s.DelGap, s.InsGap, s.Open)
	if s.Scale > 1 {
		d += fmt.Sprintf(" (all scores x%d)", s.Scale)
	}
	if s.Div > 1 {
		d += fmt.Sprintf(" (all scores /%d)", s.Div)
	}
	if s.Shrink != 0 {
		d += fmt.Sprintf(" (all scores /2^%d)", s.Shrink)
	}
	if s.OpenDiv > 1 {
		d += fmt.Sprintf(" (open /%d)", s.OpenDiv)
	}
	if s.InfGaps {
		d += " (all per-character gap scores -Inf)"
	}
	return d
}

// realAlignCases: pairs as real data has them - a kilobase locus against a copy with a repeat
// expansion (an insertion crossing position 1024) and a small deletion, under aligner-style DNA
// scoring; low-complexity and soft-masked sequence under a matrix that scores both cases;
// protein with masked X stretches under the shipped tables (zero gap-open only).
func realAlignCases(opens []int, sizes []int, emit func(AlignCase) bool) bool {
	dna := func(match, mismatch, gap, open int) MatSpec {
		m := MatSpec{Letters: gen.B("ACGT"), DelGap: []int{gap, gap, gap, gap}, InsGap: []int{gap, gap, gap, gap}, Open: open}
		for i := 0; i < 4; i++ {
			row := []int{mismatch, mismatch, mismatch, mismatch}
			row[i] = match
			m.Pair = append(m.Pair, row)
		}
		return m
	}
	for _, open := range opens {
		for i, n := range sizes {
			a := realDNA(n, 40+i, false, false)
			b := bytes.Clone(a)
			b = append(b[:1019+i:1019+i], append(bytes.Repeat([]byte("CAG"), 3+i), b[1019+i:]...)...) // expansion across 1024
			b = append(b[:n/3:n/3], b[n/3+4:]...)                                                     // small deletion
			for _, local := range []bool{false, true} {
				if !emit(AlignCase{A: a, B: b, M: dna(1, -4, -1, open), Local: local}) || !emit(AlignCase{A: b[5 : len(b)-7], B: a, M: dna(2, -3, -2, open), Local: local}) {
					return false
				}
			}
		}
		// short low-complexity pairs: homopolymers and microsatellites with different copy numbers
		for _, pair := range [][2]string{{"AAAAAAAAAC", "CAAAAAAAAA"}, {"CAGCAGCAGCACACATAT", "CAGCAGCACACACATATAT"}, {"TTTTTTTT", "TTTTT"}, {"ACACACACGT", "ACACGT"},
			{"GGGGCAGCAGTTTT", "GGGGCAGTTTT"}, {"ATATATATCGCGCG", "ATATCGCGCGCG"}} {
			for _, local := range []bool{false, true} {
				ms := []MatSpec{dna(1, -4, -1, open), dna(1, -1, -1, open), dna(2, -3, -2, open)}
				tiny := dna(2, -3, -2, open) // the same in units of 2^-40
				tiny.Shrink = 40
				ms = append(ms, tiny)
				if open != 0 {
					frac := dna(2, -3, -1, open) // whole scores, gap-open a quarter of open (-0.5, -1.5)
					frac.OpenDiv = 4
					ms = append(ms, frac)
				}
				for _, m := range ms {
					if !emit(AlignCase{A: gen.B(pair[0]), B: gen.B(pair[1]), M: m, Local: local}) || !emit(AlignCase{A: gen.B(pair[1]), B: gen.B(pair[0]), M: m, Local: local}) {
						return false
					}
				}
			}
		}
		// decimal scores that binary floating point cannot represent (gap -0.4, open -0.3, ...):
		// compared with a tolerance, so only a loss of the size of a score counts
		if open != 0 {
			dec := dna(10, -10, -4, open)
			dec.Div = 10
			dec3 := dna(7, -5, -2, open)
			dec3.Div = 3
			// whole pair and gap scores with a fractional gap-open (-0.5, -0.25 per unit)
			half := dna(2, -3, -1, open)
			half.OpenDiv = 4
			quarter := dna(1, -2, -1, open)
			quarter.OpenDiv = 4
			short := allSeqs([]byte("AC"), 4)
			for _, a := range short {
				for _, b := range short {
					for _, local := range []bool{false, true} {
						if !emit(AlignCase{A: a, B: b, M: dec, Local: local}) || (len(a)+len(b))%2 == 0 && !emit(AlignCase{A: a, B: b, M: dec3, Local: local}) {
							return false
						}
						if !emit(AlignCase{A: a, B: b, M: half, Local: local}) || (len(a)+len(b))%2 == 1 && !emit(AlignCase{A: a, B: b, M: quarter, Local: local}) {
							return false
						}
					}
				}
			}
		}
		// gaps forbidden (-Inf): sequences of equal and of different lengths
		forbid := dna(2, -1, -1, open)
		forbid.InfGaps = true
		for _, pair := range [][2]string{{"ACGT", "ACGT"}, {"ACGT", "AGT"}, {"A", ""}, {"", ""}, {"ACGTACGT", "TACGTACG"}, {"AC", "CA"}} {
			for _, local := range []bool{false, true} {
				if !emit(AlignCase{A: gen.B(pair[0]), B: gen.B(pair[1]), M: forbid, Local: local}) {
					return false
				}
			}
		}
		// bytes and their twins 0x80 higher (Latin-1 letters next to ASCII ones)
		twins := MatSpec{Letters: gen.B("a\xe1b\xe2"), Pair: [][]int{{3, -2, -1, -3}, {-2, 4, -3, -1}, {-1, -3, 2, -2}, {-3, -1, -2, 5}}, DelGap: []int{-1, -1, -2, -2}, InsGap: []int{-1, -1, -2, -2}, Open: open}
		for _, a := range allSeqs([]byte("a\xe1b\xe2"), 3) {
			for _, b := range [][]byte{[]byte("a\xe1b\xe2"), []byte("\xe1a\xe1"), []byte("\xe2bb")} {
				for _, local := range []bool{false, true} {
					if !emit(AlignCase{A: a, B: b, M: twins, Local: local}) {
						return false
					}
				}
			}
		}
		// letters that tools fold together have scores of their own: an RNA matrix (U, no T) and a
		// matrix that has both T and U
		rna := MatSpec{Letters: gen.B("ACGU"), Pair: [][]int{{3, -2, -1, -3}, {-2, 4, -3, -1}, {-1, -3, 2, -2}, {-3, -1, -2, 5}}, DelGap: []int{-1, -1, -2, -2}, InsGap: []int{-1, -1, -2, -2}, Open: open}
		tu := MatSpec{Letters: gen.B("ACGTU"), Pair: [][]int{{3, -2, -1, -3, -2}, {-2, 4, -3, -1, -3}, {-1, -3, 2, -2, -1}, {-3, -1, -2, 5, 1}, {-2, -3, -1, 1, 7}}, DelGap: []int{-1, -1, -2, -2, -3}, InsGap: []int{-1, -1, -2, -2, -3}, Open: open}
		for _, pr := range [][2]string{{"ACGU", "ACGU"}, {"GGAUCCUUAG", "GAUCUUAGG"}, {"UUUUUUUU", "UUUAUUU"}, {"ACGUACGUACGUACGUACGU", "ACGUACGACGUACGUUACGU"}} {
			for _, local := range []bool{false, true} {
				if !emit(AlignCase{A: gen.B(pr[0]), B: gen.B(pr[1]), M: rna, Local: local}) || !emit(AlignCase{A: gen.B(pr[0]), B: gen.B(strings.ReplaceAll(pr[1], "U", "T")), M: tu, Local: local}) ||
					!emit(AlignCase{A: gen.B(pr[1]), B: gen.B(pr[0]), M: tu, Local: local}) {
					return false
				}
			}
		}
		// byte 0x00 and 0xfe are letters like any other (2-bit codes, raw quality values), in tables
		// of 70 x 80 cells
		nul := MatSpec{Letters: gen.B("\x00\x01\xfea"), Pair: [][]int{{4, -2, -1, -3}, {-2, 5, -3, -1}, {-1, -3, 6, -2}, {-3, -1, -2, 3}}, DelGap: []int{-2, -1, -2, -1}, InsGap: []int{-2, -1, -2, -1}, Open: open}
		{
			x := lcg(99)
			var a, b []byte
			for i := 0; i < 70; i++ {
				a = append(a, "\x00\x00\x01\xfea"[x.next(5)])
			}
			b = append(bytes.Clone(a[5:40]), 0, 0, 0xfe)
			b = append(b, a[38:]...)
			b = append(b, 0, 1, 0, 1, 0, 'a', 0, 0, 0, 0, 0)
			for _, local := range []bool{false, true} {
				if !emit(AlignCase{A: a, B: b, M: nul, Local: local}) || !emit(AlignCase{A: b, B: a, M: nul, Local: local}) ||
					!emit(AlignCase{A: bytes.Repeat([]byte{0}, 70), B: bytes.Repeat([]byte{0}, 64), M: nul, Local: local}) {
					return false
				}
			}
		}
		// both cases with scores of their own
		mixed := MatSpec{Letters: gen.B("aAcC"), Pair: [][]int{{2, -1, -3, -3}, {-1, 3, -3, -2}, {-3, -3, 2, 0}, {-3, -2, 0, 4}}, DelGap: []int{-1, -2, -1, -2}, InsGap: []int{-1, -2, -1, -2}, Open: open}
		for _, a := range allSeqs([]byte("aAcC"), 3) {
			for _, b := range [][]byte{[]byte("aAcC"), []byte("AAaa"), []byte("c")} {
				for _, local := range []bool{false, true} {
					if !emit(AlignCase{A: a, B: b, M: mixed, Local: local}) {
						return false
					}
				}
			}
		}
	}
	if len(opens) == 1 && opens[0] == 0 {
		for _, name := range shippedNames {
			if name == "Levenshtein" {
				continue
			}
			letters := MatSpec{Named: name}.letters()
			for v := 0; v < 6; v++ {
				a := realProtein(20+7*v, v, letters)
				b := append(bytes.Clone(a[3:]), a[:5]...)
				if v%2 == 0 {
					b = append([]byte("XX"), append(bytes.Clone(a), 'X', 'X')...)
				}
				for _, local := range []bool{false, true} {
					if !emit(AlignCase{A: a, B: b, M: MatSpec{Named: name}, Local: local}) || !emit(AlignCase{A: b, B: a, M: MatSpec{Named: name}, Local: local}) {
						return false
					}
				}
			}
		}
	}
	return true
}
