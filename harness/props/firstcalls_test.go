package props

// More entries of firstCalls (see realdata_test.go): alignment, matrices, sketches, the interval
// index - each as the first call into its package in a fresh process, with a known small answer.

import (
	"fmt"
	"slices"
	"strings"

	"github.com/fluhus/biostuff/align"
	"github.com/fluhus/biostuff/formats/smtext"
	"github.com/fluhus/biostuff/mash"
	"github.com/fluhus/biostuff/regions"
)

func init() {
	firstCalls["Global-Levenshtein"] = func() error {
		_, score := align.Global([]byte("kitten"), []byte("sitting"), align.Levenshtein)
		if score != -3 {
			return fmt.Errorf("Global(kitten, sitting, Levenshtein) scores %v, want -3", score)
		}
		return nil
	}
	firstCalls["Local-BLOSUM62"] = func() error {
		steps, ai, bi, score := align.Local([]byte("PPPWWWPPP"), []byte("GGWWWGG"), align.BLOSUM62)
		if score != 33 || ai != 3 || bi != 2 || len(steps) != 3 {
			return fmt.Errorf("Local(PPPWWWPPP, GGWWWGG, BLOSUM62) = %d steps from (%d,%d) scoring %v, want 3 steps from (3,2) scoring 33", len(steps), ai, bi, score)
		}
		return nil
	}
	firstCalls["Global-PAM250"] = func() error {
		_, s1 := align.Global([]byte("HEAGAWGHEE"), []byte("PAWHEAE"), align.PAM250)
		_, s2 := align.Global([]byte("PAWHEAE"), []byte("HEAGAWGHEE"), align.PAM250)
		if s1 != s2 {
			return fmt.Errorf("Global with PAM250 scores %v one way and %v the other", s1, s2)
		}
		return nil
	}
	firstCalls["Symmetrical"] = func() error {
		m := align.SubstitutionMatrix{{'a', 'b'}: 2, {'c', 'c'}: 1}.Symmetrical()
		if len(m) != 3 || m[[2]byte{'b', 'a'}] != 2 {
			return fmt.Errorf("Symmetrical of {ab:2, cc:1} = %v", m)
		}
		return nil
	}
	firstCalls["GoString"] = func() error {
		s := align.SubstitutionMatrix{{'a', 'b'}: 2}.GoString()
		if !strings.Contains(s, "2") || !strings.Contains(s, "'a'") {
			return fmt.Errorf("GoString of {ab:2} = %q", s)
		}
		return nil
	}
	firstCalls["ReadNCBI"] = func() error {
		m, err := smtext.ReadNCBI(strings.NewReader("# c\n   A  *\nA  1 -2\n* -2  3\n"))
		if err != nil || len(m) != 4 || m[[2]byte{'A', 255}] != -2 || m[[2]byte{255, 255}] != 3 {
			return fmt.Errorf("ReadNCBI of a 2x2 table = %v, %v", m, err)
		}
		return nil
	}
	firstCalls["mash.Sequences"] = func() error {
		a := mash.Sequences(5, 3, []byte("ACGTTGCA")).View()
		b := mash.Sequences(5, 3, []byte("tgcaacgt")).View() // the reverse complement, lower case
		if len(a) == 0 || !slices.Equal(a, b) || !slices.IsSortedFunc(a, func(x, y uint64) int {
			if x > y {
				return -1
			} else if x < y {
				return 1
			}
			return 0
		}) {
			return fmt.Errorf("Sequences(5,3,ACGTTGCA) = %v, of its reverse complement in lower case %v", a, b)
		}
		return nil
	}
	firstCalls["mash.FromJaccard"] = func() error {
		if d := mash.FromJaccard(1, 21); d != 0 {
			return fmt.Errorf("FromJaccard(1,21) = %v", d)
		}
		if d := mash.FromJaccard(0, 21); d != 1 {
			return fmt.Errorf("FromJaccard(0,21) = %v", d)
		}
		return nil
	}
	firstCalls["regions.NewIndex"] = func() error {
		idx := regions.NewIndex([]int{0, 5, 7, 3}, []int{10, 5, 6, 8})
		if got := idx.At(4); !slices.Equal(got, []int{0, 3}) {
			return fmt.Errorf("NewIndex([0 5 7 3],[10 5 6 8]).At(4) = %v, want [0 3]", got)
		}
		if got := idx.At(10); len(got) != 0 {
			return fmt.Errorf("At(10) = %v, want nothing", got)
		}
		return nil
	}
}
