package props

// C19: tree traversals visit every node exactly once in the documented order.

import (
	"fmt"
	"runtime/debug"
	"slices"
	"sync"
	"testing"

	"github.com/fluhus/biostuff/formats/newick"
	"pgregory.net/rapid"
	"verif/harness/internal/gen"
)

type C19Case struct {
	Tree gen.TreeSpec `json:"tree"`
}

// buildTree materialises a spec; nodes[i] is node i of the spec.
func buildTree(s gen.TreeSpec) (*newick.Node, []*newick.Node) {
	pa := s.ParentArray()
	nodes := make([]*newick.Node, len(pa))
	backing := make([]newick.Node, len(pa))
	for i := range pa {
		nodes[i] = &backing[i]
		nodes[i].Name = string(s.NameOf(i))
		nodes[i].Distance = s.DistOf(i)
	}
	if s.SharedChildren && len(pa) > 1 {
		cnt := make([]int, len(pa))
		for i := 1; i < len(pa); i++ {
			cnt[pa[i]]++
		}
		all := make([]*newick.Node, len(pa)-1, len(pa)+3) // one array for every child pointer
		off := 0
		for i := range nodes {
			if cnt[i] > 0 {
				nodes[i].Children = all[off:off:cap(all)][:0] // window starting at off, capacity to the end
				off += cnt[i]
			}
		}
		for i := 1; i < len(pa); i++ {
			p := nodes[pa[i]]
			p.Children = append(p.Children, nodes[i]) // stays inside the shared array
		}
		if trackShared {
			sharedArrays[nodes[0]] = all[:cap(all)]
		}
	} else {
		for i := 1; i < len(pa); i++ {
			p := nodes[pa[i]]
			p.Children = append(p.Children, nodes[i])
		}
	}
	if s.EmptyLeaves != 0 {
		for i, n := range nodes {
			if len(n.Children) == 0 {
				switch {
				case s.EmptyLeaves == 1 || (s.EmptyLeaves == 2 && i%2 == 0):
					n.Children = []*newick.Node{}
				case s.EmptyLeaves == 3:
					n.Children = make([]*newick.Node, 0, 4)
				}
			}
		}
	}
	return nodes[0], nodes
}

// sharedArrays remembers, per root, the backing array of a tree built with SharedChildren.
// Only C19 asks for it (trackShared) and removes the entry when its check returns.
var sharedArrays = map[*newick.Node][]*newick.Node{}
var trackShared bool

func refPreOrder(n *newick.Node, out []*newick.Node) []*newick.Node {
	out = append(out, n)
	for _, c := range n.Children {
		out = refPreOrder(c, out)
	}
	return out
}

func refPostOrder(n *newick.Node, out []*newick.Node) []*newick.Node {
	for _, c := range n.Children {
		out = refPostOrder(c, out)
	}
	return append(out, n)
}

type nodeSnap struct {
	name     string
	dist     float64
	children []*newick.Node
	first    **newick.Node
	isNil    bool // Children == nil (as opposed to empty)
	capacity int
}

func snapshot(nodes []*newick.Node) []nodeSnap {
	out := make([]nodeSnap, len(nodes), len(nodes)+1)
	for i, n := range nodes {
		out[i] = nodeSnap{name: n.Name, dist: n.Distance, children: append([]*newick.Node(nil), n.Children...), isNil: n.Children == nil, capacity: cap(n.Children)}
		if len(n.Children) > 0 {
			out[i].first = &n.Children[0]
		}
	}
	return out
}

func sameSnapshot(nodes []*newick.Node, snap []nodeSnap) error {
	for i, n := range nodes {
		s := snap[i]
		if n.Name != s.name || !gen.SameFloat(n.Distance, s.dist) || len(n.Children) != len(s.children) {
			return fmt.Errorf("node %d was modified by the traversal", i)
		}
		for j := range s.children {
			if n.Children[j] != s.children[j] {
				return fmt.Errorf("children of node %d were modified by the traversal", i)
			}
		}
		if len(n.Children) > 0 && &n.Children[0] != s.first {
			return fmt.Errorf("children slice of node %d was reallocated by the traversal", i)
		}
		if (n.Children == nil) != s.isNil || cap(n.Children) != s.capacity {
			return fmt.Errorf("the Children field of node %d was rewritten by the traversal: nil %v -> %v, capacity %d -> %d (an empty slice the caller had preallocated)", i, s.isNil, n.Children == nil, s.capacity, cap(n.Children))
		}
	}
	return nil
}

func treeDepthAndFan(pa []int) (depth, fan int) {
	d := make([]int, len(pa))
	cnt := make([]int, len(pa))
	for i := 1; i < len(pa); i++ {
		d[i] = d[pa[i]] + 1
		depth = max(depth, d[i])
		cnt[pa[i]]++
		fan = max(fan, cnt[pa[i]])
	}
	return
}

func genTreeShape(t *rapid.T, maxNodes int) gen.TreeSpec {
	n := rapid.OneOf(rapid.IntRange(1, 8), rapid.IntRange(1, 40), rapid.IntRange(1, maxNodes)).Draw(t, "nodes")
	names := rapid.SampledFrom([][]gen.B{nil, nil, {gen.B("100")}, {gen.B("100"), gen.B("95"), nil, gen.B("A")}, {gen.B("a"), gen.B("b"), gen.B("c"), gen.B("d"), gen.B("e"), gen.B("f"), gen.B("g")}}).Draw(t, "names")
	dists := rapid.SampledFrom([][]gen.F{nil, nil, {1}, {0.5, 0, -1, 1e-05}}).Draw(t, "dists")
	return gen.TreeSpec{Parents: gen.DrawShape(t, n), EmptyLeaves: rapid.SampledFrom([]int{0, 0, 0, 1, 2, 3}).Draw(t, "emptyLeaves"),
		SharedChildren: rapid.SampledFrom([]bool{false, true, false}).Draw(t, "sharedChildren"), Names: names, Dists: dists}
}

func genC19(t *rapid.T, thorough bool) C19Case {
	maxNodes := 2000
	if thorough {
		maxNodes = 20000
	}
	switch rapid.IntRange(0, 19).Draw(t, "kind") {
	case 0:
		big := []int{1000, 5000, 100000}
		if thorough {
			big = append(big, 1000000)
		}
		return C19Case{Tree: gen.TreeSpec{Shape: rapid.SampledFrom([]string{"chain", "broom", "caterpillar"}).Draw(t, "shape"),
			N: rapid.SampledFrom(big).Draw(t, "n"), Fan: rapid.IntRange(0, 5).Draw(t, "fan")}}
	case 1:
		return C19Case{Tree: gen.TreeSpec{Shape: rapid.SampledFrom([]string{"chain", "broom", "caterpillar"}).Draw(t, "shape"),
			N: rapid.IntRange(1, 30).Draw(t, "n"), Fan: rapid.IntRange(0, 5).Draw(t, "fan")}}
	}
	return C19Case{Tree: genTreeShape(t, maxNodes)}
}

func checkC19(c C19Case, o *Obs) error {
	trackShared = true
	root, nodes := buildTree(c.Tree)
	trackShared = false
	pa := c.Tree.ParentArray()
	depth, fan := treeDepthAndFan(pa)
	o.NT = len(nodes) >= 3 && depth < len(nodes)-1
	o.ClassIf(fan >= 3, "fan-out>=3")
	o.ClassIf(depth >= 1000, "depth>=1000")
	o.ClassIf(depth >= 100000, "depth>=1e5")
	o.ClassIf(len(nodes) == 1, "single node")
	o.ClassIf(depth == len(nodes)-1 && len(nodes) > 1, "chain")
	o.ClassIf(len(nodes) >= 3 && depth > 3*fan && depth < len(nodes)-1, "unbalanced")
	o.Class("shape:" + c.Tree.Shape)
	o.ClassIf(c.Tree.EmptyLeaves != 0, "leaves with empty non-nil Children")
	snap := snapshot(nodes)
	var sharedBefore []*newick.Node
	if arr, ok := sharedArrays[root]; ok {
		sharedBefore = append([]*newick.Node(nil), arr...)
		defer delete(sharedArrays, root)
		o.Class("children slices share one array")
	}
	sharedUnchanged := func(when string) error {
		arr := sharedArrays[root]
		for i := range sharedBefore {
			if arr[i] != sharedBefore[i] {
				return fmt.Errorf("%s modified the tree's storage: slot %d of the array shared by the Children slices changed (a write past the end of a Children slice)", when, i)
			}
		}
		return nil
	}

	index := make(map[*newick.Node]int, len(nodes))
	for i, n := range nodes {
		index[n] = i
	}
	for tci, tc := range []struct {
		name string
		it   func() func(func(*newick.Node) bool)
		want []*newick.Node
	}{
		{"PreOrder", func() func(func(*newick.Node) bool) { return root.PreOrder() }, refPreOrder(root, make([]*newick.Node, 0, len(nodes)))},
		{"PostOrder", func() func(func(*newick.Node) bool) { return root.PostOrder() }, refPostOrder(root, make([]*newick.Node, 0, len(nodes)))},
	} {
		got := make([]*newick.Node, 0, len(nodes)+2)
		// "Works for trees deeper than any recursion limit": while the traversal runs, the
		// goroutine stack limit is lowered to 256 KiB - ample for an iterative traversal of any
		// depth, fatal ("stack overflow") for one that recurses once per level of a deep tree.
		// The traversal runs on a fresh goroutine (whose stack starts small; the limit is only
		// checked when a stack has to grow, and this goroutine's stack is already large after the
		// recursive reference traversals).
		it := tc.it()
		done := make(chan any, 1)
		go func() {
			defer func() { done <- recover() }()
			old := debug.SetMaxStack(256 << 10)
			defer debug.SetMaxStack(old)
			run := func() {
				it(func(n *newick.Node) bool {
					got = append(got, n)
					return len(got) <= len(nodes)+1
				})
			}
			if (len(nodes)+tci)%2 == 1 {
				// every other time the traversal is started from the loop body of another
				// traversal (of a small tree) that is still in progress
				small := &newick.Node{Name: "outer", Children: []*newick.Node{{Name: "x"}, {Name: "y"}}}
				k := 0
				for range small.PostOrder() {
					if k == 1 {
						run()
					}
					k++
				}
				if k != 3 {
					panic(fmt.Sprintf("the outer traversal of a three-node tree, in whose loop body this traversal ran, yielded %d nodes", k))
				}
				return
			}
			run()
		}()
		if p := <-done; p != nil {
			return fmt.Errorf("%s panicked: %v", tc.name, p)
		}
		if len(got) != len(tc.want) {
			return fmt.Errorf("%s yields %d nodes, the tree has %d", tc.name, len(got), len(tc.want))
		}
		for i := range got {
			if got[i] != tc.want[i] {
				gi, ok := index[got[i]]
				if !ok {
					gi = -1
				}
				return fmt.Errorf("%s item %d is node %d, want node %d (parents %v)", tc.name, i, gi, index[tc.want[i]], abbreviateInts(pa))
			}
		}
		if err := sameSnapshot(nodes, snap); err != nil {
			return fmt.Errorf("%s: %v", tc.name, err)
		}
		if err := sharedUnchanged(tc.name); err != nil {
			return err
		}
	}
	// An iterator value and a tree that changes: the value is obtained on tree A, the tree grows
	// to B (a new last child of the root), a first pass runs, the tree grows to C (a child under
	// the new node), a second pass runs. An iterator may walk the tree as it is when ranged
	// (passes see B, then C - what the pinned code does) or as it was when the value was obtained
	// (A, A); anything else - remembering the first pass, mixing the two - is neither.
	if len(nodes) <= 400 {
		for _, pre := range []bool{true, false} {
			name, refOrder := "PostOrder", refPostOrder
			it := root.PostOrder()
			if pre {
				name, refOrder = "PreOrder", refPreOrder
				it = root.PreOrder()
			}
			run := func() (out []*newick.Node, p any) {
				p = catch(func() {
					it(func(n *newick.Node) bool {
						out = append(out, n)
						return len(out) <= len(nodes)+4
					})
				})
				return
			}
			same := func(a, b []*newick.Node) bool { return slices.Equal(a, b) }
			orderA := refOrder(root, nil)
			oldChildren := root.Children
			extra := &newick.Node{Name: "added"}
			root.Children = append(slices.Clone(oldChildren), extra)
			orderB := refOrder(root, nil)
			pass1, p1 := run()
			extra.Children = []*newick.Node{{Name: "added below"}}
			orderC := refOrder(root, nil)
			pass2, p2 := run()
			root.Children = oldChildren // restore tree A
			if p1 != nil || p2 != nil {
				return fmt.Errorf("%s over a tree that grew after the iterator value was obtained panicked: %v %v", name, p1, p2)
			}
			live := same(pass1, orderB) && same(pass2, orderC)
			snapshot := same(pass1, orderA) && same(pass2, orderA)
			if !live && !snapshot {
				return fmt.Errorf("%s: iterator value obtained on a tree of %d nodes, tree grown to %d nodes, first pass yields %d nodes, tree grown to %d nodes, second pass yields %d nodes: neither the tree at the time of each pass (%d, %d) nor the tree at the time the value was obtained (%d, %d) (parents %v)",
					name, len(orderA), len(orderB), len(pass1), len(orderC), len(pass2), len(orderB), len(orderC), len(orderA), len(orderA), abbreviateInts(pa))
			}
		}
		if err := sameSnapshot(nodes, snap); err != nil {
			return fmt.Errorf("after restoring the tree: %v", err)
		}
	}
	// The caller edits the tree between two traversals without changing any node's number of
	// children - it reverses every Children slice in place (ladderising), then replaces one child
	// by a new node - and traverses again with fresh iterator values: each traversal is about the
	// tree as it is then.
	if len(nodes) >= 3 && len(nodes) <= 2000 {
		o.Class("tree edited between two traversals")
		fresh := func(what string) error {
			for _, pre := range []bool{true, false} {
				name, want, it := "PostOrder", refPostOrder(root, nil), root.PostOrder()
				if pre {
					name, want, it = "PreOrder", refPreOrder(root, nil), root.PreOrder()
				}
				var got []*newick.Node
				if p := catch(func() {
					for n := range it {
						got = append(got, n)
						if len(got) > len(want)+4 {
							break
						}
					}
				}); p != nil {
					return fmt.Errorf("%s after %s panicked: %v", name, what, p)
				}
				if !slices.Equal(got, want) {
					return fmt.Errorf("%s after %s (earlier traversals of the same tree were complete): yields %d nodes that differ from the recursive order of the tree as it is now (%d nodes; original parents %s)", name, what, len(got), len(want), abbreviateInts(pa))
				}
			}
			return nil
		}
		for _, n := range nodes {
			slices.Reverse(n.Children)
		}
		err := fresh("the caller reversed every Children slice in place")
		for _, n := range nodes {
			slices.Reverse(n.Children)
		}
		if err != nil {
			return err
		}
		// replace the last child of the last inner node by a new leaf (same child counts everywhere)
		for i := len(nodes) - 1; i >= 0; i-- {
			if k := len(nodes[i].Children); k > 0 && len(nodes[i].Children[k-1].Children) == 0 {
				old := nodes[i].Children[k-1]
				nodes[i].Children[k-1] = &newick.Node{Name: "replacement"}
				err := fresh("the caller replaced one leaf by a new node")
				nodes[i].Children[k-1] = old
				if err != nil {
					return err
				}
				break
			}
		}
		if err := sameSnapshot(nodes, snap); err != nil {
			return fmt.Errorf("after restoring the tree: %v", err)
		}
	}
	// Nested traversals: while an outer traversal is being consumed, the loop body walks the
	// subtree of every yielded node; both must stay correct.
	if len(nodes) <= 150 {
		for _, pre := range []bool{true, false} {
			name, wantOuter := "PostOrder", refPostOrder(root, nil)
			outer := root.PostOrder()
			if pre {
				name, wantOuter, outer = "PreOrder", refPreOrder(root, nil), root.PreOrder()
			}
			k := 0
			var nerr error
			if p := catch(func() {
				for n := range outer {
					if k >= len(wantOuter) || n != wantOuter[k] {
						nerr = fmt.Errorf("%s with a nested traversal in the loop body: outer item %d is node %d, want node %d (parents %s)", name, k, index[n], index[wantOuter[min(k, len(wantOuter)-1)]], abbreviateInts(pa))
						return
					}
					k++
					wantInner := refPostOrder(n, nil)
					j := 0
					for x := range n.PostOrder() {
						if j >= len(wantInner) || x != wantInner[j] {
							nerr = fmt.Errorf("%s: nested PostOrder of node %d differs at item %d (parents %s)", name, index[n], j, abbreviateInts(pa))
							return
						}
						j++
					}
					if j != len(wantInner) {
						nerr = fmt.Errorf("%s: nested PostOrder of node %d yields %d nodes, want %d", name, index[n], j, len(wantInner))
						return
					}
				}
			}); p != nil {
				return fmt.Errorf("%s with a nested traversal panicked: %v", name, p)
			}
			if nerr != nil {
				return nerr
			}
			if k != len(wantOuter) {
				return fmt.Errorf("%s with a nested traversal in the loop body yields %d nodes, want %d", name, k, len(wantOuter))
			}
		}
	}
	// One iterator value ranged over inside its own loop body (all pairs of nodes:
	// it := t.PostOrder(); for a := range it { for b := range it { ... } }).
	if len(nodes) <= 60 {
		for _, pre := range []bool{true, false} {
			it, want, name := root.PostOrder(), refPostOrder(root, nil), "PostOrder"
			if pre {
				it, want, name = root.PreOrder(), refPreOrder(root, nil), "PreOrder"
			}
			k := 0
			var nerr error
			if p := catch(func() {
				for a := range it {
					if k >= len(want) || a != want[k] {
						nerr = fmt.Errorf("%s: one iterator value ranged over inside its own loop body: outer item %d is wrong (parents %s)", name, k, abbreviateInts(pa))
						return
					}
					k++
					j := 0
					for b := range it {
						if j >= len(want) || b != want[j] {
							nerr = fmt.Errorf("%s: one iterator value ranged over inside its own loop body: inner pass %d, item %d is wrong (parents %s)", name, k, j, abbreviateInts(pa))
							return
						}
						j++
					}
					if j != len(want) {
						nerr = fmt.Errorf("%s: one iterator value ranged over inside its own loop body: inner pass %d yields %d nodes, want %d (parents %s)", name, k, j, len(want), abbreviateInts(pa))
						return
					}
				}
			}); p != nil {
				return fmt.Errorf("%s: one iterator value ranged over inside its own loop body panicked: %v (parents %s)", name, p, abbreviateInts(pa))
			}
			if nerr != nil {
				return nerr
			}
			if k != len(want) {
				return fmt.Errorf("%s: one iterator value ranged over inside its own loop body: the outer pass yields %d nodes, want %d (parents %s)", name, k, len(want), abbreviateInts(pa))
			}
		}
	}
	// The value returned by PreOrder/PostOrder stands for the traversal: ranging over it again,
	// also after an abandoned pass (of this or of another iterator), visits every node again.
	if len(nodes) <= 5000 {
		for _, pre := range []bool{true, false} {
			it, want, name := root.PostOrder(), refPostOrder(root, nil), "PostOrder"
			if pre {
				it, want, name = root.PreOrder(), refPreOrder(root, nil), "PreOrder"
			}
			for pass := 0; pass < 3; pass++ {
				var got []*newick.Node
				stopAt := -1
				if pass == 1 {
					stopAt = len(nodes)/2 + 1 // abandon this pass
				}
				if p := catch(func() {
					for n := range it {
						got = append(got, n)
						if len(got) == stopAt || len(got) > len(nodes)+1 {
							break
						}
					}
				}); p != nil {
					return fmt.Errorf("%s pass %d over the same iterator value panicked: %v", name, pass, p)
				}
				wantN := len(want)
				if stopAt > 0 {
					wantN = min(stopAt, len(want))
				}
				if len(got) != wantN {
					return fmt.Errorf("%s pass %d over the same iterator value (pass 1 was abandoned after %d nodes) yields %d nodes, want %d (parents %s)", name, pass, len(nodes)/2+1, len(got), wantN, abbreviateInts(pa))
				}
				for i := range got {
					if got[i] != want[i] {
						return fmt.Errorf("%s pass %d over the same iterator value: item %d is node %d, want node %d (parents %s)", name, pass, i, index[got[i]], index[want[i]], abbreviateInts(pa))
					}
				}
			}
		}
	}
	// A traversal started at an inner node covers exactly its subtree.
	if len(nodes) > 2 && len(nodes) < 5000 {
		sub := nodes[len(nodes)/2]
		var got []*newick.Node
		for n := range sub.PreOrder() {
			got = append(got, n)
		}
		want := refPreOrder(sub, nil)
		if len(got) != len(want) {
			return fmt.Errorf("PreOrder from inner node %d yields %d nodes, subtree has %d", len(nodes)/2, len(got), len(want))
		}
		for i := range got {
			if got[i] != want[i] {
				return fmt.Errorf("PreOrder from inner node %d differs at item %d", len(nodes)/2, i)
			}
		}
	}
	return nil
}

func abbreviateInts(x []int) string {
	if len(x) <= 40 {
		return fmt.Sprint(x)
	}
	return fmt.Sprintf("%v…(%d)", x[:40], len(x))
}

func exhaustiveC19(thorough bool, emit func(C19Case) bool) {
	maxN := 9
	if thorough {
		maxN = 11
	}
	for n := 1; n <= maxN; n++ {
		if !gen.AllShapes(n, func(p []int) bool {
			if n <= 6 {
				for el := 1; el <= 3; el++ {
					if !emit(C19Case{Tree: gen.TreeSpec{Parents: p, EmptyLeaves: el}}) {
						return false
					}
				}
			}
			if n <= 8 && !emit(C19Case{Tree: gen.TreeSpec{Parents: p, SharedChildren: true}}) {
				return false
			}
			// the same shape with every node labelled "100" (bootstrap values as inner node names
			// repeat all over real trees), and with two alternating labels and branch lengths
			if n <= 8 && (!emit(C19Case{Tree: gen.TreeSpec{Parents: p, Names: []gen.B{gen.B("100")}}}) ||
				!emit(C19Case{Tree: gen.TreeSpec{Parents: p, Names: []gen.B{gen.B("95"), gen.B("100")}, Dists: []gen.F{0.5, 0, -1}}})) {
				return false
			}
			return emit(C19Case{Tree: gen.TreeSpec{Parents: p}})
		}) {
			return
		}
	}
	// wide nodes below wide nodes: a node with F children whose first child has F children, whose
	// first child has F children again; the root's sixth child is wide too
	for _, f := range []int{300, 1025, 2100} {
		var p []int // Parents: parent of node i+1
		add := func(parent, k int) (first int) {
			first = len(p) + 1
			for i := 0; i < k; i++ {
				p = append(p, parent)
			}
			return first
		}
		a := add(0, f)
		b := add(a, f)
		add(b, f)
		add(a+5, f)
		add(a+f-1, 3)
		if !emit(C19Case{Tree: gen.TreeSpec{Parents: p}}) {
			return
		}
	}
	// a node with more children than a 16-bit counter holds
	if !emit(C19Case{Tree: gen.TreeSpec{Shape: "broom", N: 2, Fan: 70000}}) || !emit(C19Case{Tree: gen.TreeSpec{Shape: "broom", N: 1, Fan: 65536}}) {
		return
	}
	for _, sh := range []string{"chain", "broom", "caterpillar"} {
		deep := 100000
		if thorough {
			deep = 1000000
		}
		for _, n := range []int{1, 2, 3, 10, 1000, deep} {
			if !emit(C19Case{Tree: gen.TreeSpec{Shape: sh, N: n, Fan: 3}}) {
				return
			}
		}
	}
}

func propC19() Prop[C19Case] {
	return Prop[C19Case]{ID: "C19", Gen: genC19, Exhaustive: exhaustiveC19, Check: checkC19,
		Risky: func(c C19Case) bool { return c.Tree.N >= 2000 || len(c.Tree.Parents) >= 2000 }}
}

func TestC19(t *testing.T) { Run(t, propC19()) }

func FuzzGenC19(f *testing.F) { RunFuzz(f, propC19()) }

// checkC19Race runs in a binary built with -race: several goroutines traverse the same tree at
// the same time. Traversal "does not modify the tree", so concurrent traversals are pure readers;
// any write to the tree during a traversal is reported by the race detector (the driver maps the
// report to a violation), and every goroutine must still see the reference order.
func checkC19Race(c C19Case, o *Obs) error {
	root, nodes := buildTree(c.Tree)
	if len(nodes) > 3000 {
		return nil
	}
	_, fan := treeDepthAndFan(c.Tree.ParentArray())
	o.NT = len(nodes) >= 3
	o.Class("concurrent traversals")
	o.ClassIf(fan >= 3, "fan-out>=3")
	wantPre, wantPost := refPreOrder(root, nil), refPostOrder(root, nil)
	var wg sync.WaitGroup
	errs := make(chan error, 8)
	for g := 0; g < 6; g++ {
		wg.Add(1)
		go func(g int) {
			defer wg.Done()
			for rep := 0; rep < 3; rep++ {
				want, it, name := wantPost, root.PostOrder(), "PostOrder"
				if (g+rep)%2 == 0 {
					want, it, name = wantPre, root.PreOrder(), "PreOrder"
				}
				i := 0
				for n := range it {
					if i >= len(want) || n != want[i] {
						errs <- fmt.Errorf("%s running concurrently with other traversals of the same tree: item %d differs from the sequential order (parents %s)", name, i, abbreviateInts(c.Tree.ParentArray()))
						return
					}
					i++
				}
				if i != len(want) {
					errs <- fmt.Errorf("%s running concurrently with other traversals yields %d nodes, want %d", name, i, len(want))
					return
				}
			}
		}(g)
	}
	wg.Wait()
	close(errs)
	return <-errs
}

func TestC19Race(t *testing.T) {
	Run(t, Prop[C19Case]{ID: "C19", Gen: func(t *rapid.T, thorough bool) C19Case {
		n := rapid.OneOf(rapid.IntRange(2, 30), rapid.IntRange(2, 400)).Draw(t, "nodes")
		return C19Case{Tree: gen.TreeSpec{Parents: gen.DrawShape(t, n), SharedChildren: rapid.Bool().Draw(t, "shared")}}
	}, Check: checkC19Race})
}
