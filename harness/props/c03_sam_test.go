package props

// C03: SAM alignments, typed tags, headers and flag bits survive write -> read.

import (
	"bytes"
	"fmt"
	"math"
	"sort"
	"strings"
	"testing"

	"github.com/fluhus/biostuff/formats/sam"
	"pgregory.net/rapid"
	"verif/harness/internal/gen"
)

type SamTag struct {
	Name string `json:"name"`
	Type string `json:"type"` // A i f Z H
	A    int    `json:"a,omitempty"`
	I    int    `json:"i,omitempty"`
	F    gen.F  `json:"f,omitempty"`
	Z    gen.B  `json:"z,omitempty"`
	H    gen.B  `json:"h,omitempty"`
}

type SamRec struct {
	Qname gen.B    `json:"qname"`
	Flag  int      `json:"flag"`
	Rname gen.B    `json:"rname"`
	Pos   int      `json:"pos"`
	Mapq  int      `json:"mapq"`
	Cigar gen.B    `json:"cigar"`
	Rnext gen.B    `json:"rnext"`
	Pnext int      `json:"pnext"`
	Tlen  int      `json:"tlen"`
	Seq   gen.B    `json:"seq"`
	Qual  gen.B    `json:"qual"`
	Tags  []SamTag `json:"tags,omitempty"`
}

// C03Case: Kind "file" = headers + records; Kind "flags" = accessor/setter laws on FlagValue.
type C03Case struct {
	Kind      string   `json:"kind"`
	Headers   []gen.B  `json:"headers,omitempty"`
	Recs      []SamRec `json:"recs,omitempty"`
	FlagValue int      `json:"flag_value,omitempty"`
}

var samFieldAlpha = gen.Alphabet{Hostile: []byte("\"'@:;,# *=\x00\x7f\x80\xff\\"), Exclude: []byte("\t\r\n")}
var samHeaderAlpha = gen.Alphabet{Hostile: []byte("\"'@:;,# \t*\x00\x7f\x80\xff"), Exclude: []byte("\r\n")}

func (r SamRec) toSAM() *sam.SAM {
	s := &sam.SAM{Qname: string(r.Qname), Flag: sam.Flag(r.Flag), Rname: string(r.Rname), Pos: r.Pos, Mapq: r.Mapq,
		Cigar: string(r.Cigar), Rnext: string(r.Rnext), Pnext: r.Pnext, Tlen: r.Tlen, Seq: string(r.Seq), Qual: string(r.Qual)}
	if r.Tags != nil {
		s.Tags = map[string]any{}
	}
	for _, t := range r.Tags {
		switch t.Type {
		case "A":
			s.Tags[t.Name] = byte(t.A)
		case "i":
			s.Tags[t.Name] = t.I
		case "f":
			s.Tags[t.Name] = float64(t.F)
		case "Z":
			s.Tags[t.Name] = string(t.Z)
		case "H":
			s.Tags[t.Name] = []byte(t.H)
		}
	}
	return s
}

// inDomain tells whether the record is inside the statement's domain.
func (r SamRec) inDomain() bool {
	for _, f := range [][]byte{r.Qname, r.Rname, r.Cigar, r.Rnext, r.Seq, r.Qual} {
		if bytes.ContainsAny(f, "\t\r\n") {
			return false
		}
	}
	if len(r.Qname) > 0 && r.Qname[0] == '@' {
		return false
	}
	seen := map[string]bool{}
	for _, t := range r.Tags {
		if len(t.Name) != 2 || seen[t.Name] || strings.ContainsAny(t.Name, ":\t\r\n") {
			return false
		}
		seen[t.Name] = true
		switch t.Type {
		case "A":
			if t.A < '!' || t.A > '~' {
				return false
			}
		case "Z":
			if bytes.ContainsAny(t.Z, "\t\r\n") {
				return false
			}
		case "i", "f", "H":
		default:
			return false
		}
	}
	return true
}

func genSamTag(t *rapid.T, name string) SamTag {
	tag := SamTag{Name: name, Type: rapid.SampledFrom([]string{"A", "i", "f", "Z", "H"}).Draw(t, "type")}
	switch tag.Type {
	case "A":
		tag.A = rapid.IntRange('!', '~').Draw(t, "A")
	case "i":
		tag.I = gen.Ints().Draw(t, "i")
	case "f":
		tag.F = gen.F(gen.Floats().Draw(t, "f"))
	case "Z":
		tag.Z = samFieldAlpha.Field(8, 80, 9000).Draw(t, "Z")
	case "H":
		tag.H = gen.B(rapid.SliceOfN(rapid.Byte(), 0, rapid.SampledFrom([]int{6, 6, 6, 200}).Draw(t, "hmax")).Draw(t, "H"))
	}
	return tag
}

func genSamRec(t *rapid.T) SamRec {
	field := samFieldAlpha.Field(10, 100, 9000)
	r := SamRec{
		Qname: field.Draw(t, "qname"), Rname: field.Draw(t, "rname"), Cigar: field.Draw(t, "cigar"),
		Rnext: field.Draw(t, "rnext"), Seq: field.Draw(t, "seq"), Qual: field.Draw(t, "qual"),
		Flag: rapid.OneOf(rapid.IntRange(0, 4095), gen.Ints()).Draw(t, "flag"),
		Pos:  gen.Ints().Draw(t, "pos"), Mapq: gen.Ints().Draw(t, "mapq"), Pnext: gen.Ints().Draw(t, "pnext"), Tlen: gen.Ints().Draw(t, "tlen"),
	}
	if len(r.Qname) > 0 && r.Qname[0] == '@' {
		r.Qname[0] = 'q'
	}
	const first = "ABXYZabz"
	const second = "ABXZabz019"
	ntags := rapid.SampledFrom([]int{0, 0, 1, 2, 3, 6}).Draw(t, "ntags")
	seen := map[string]bool{}
	for i := 0; i < ntags; i++ {
		name := string([]byte{first[rapid.IntRange(0, len(first)-1).Draw(t, "t1")], second[rapid.IntRange(0, len(second)-1).Draw(t, "t2")]})
		if seen[name] {
			continue
		}
		seen[name] = true
		r.Tags = append(r.Tags, genSamTag(t, name))
	}
	return r
}

func genC03(t *rapid.T, thorough bool) C03Case {
	if rapid.IntRange(0, 9).Draw(t, "flags") == 0 {
		return C03Case{Kind: "flags", FlagValue: rapid.OneOf(rapid.IntRange(0, 4095), rapid.Int(), rapid.IntRange(-5000, 5000)).Draw(t, "flag")}
	}
	c := C03Case{Kind: "file"}
	nh := rapid.SampledFrom([]int{0, 0, 1, 2, 4}).Draw(t, "nheaders")
	for i := 0; i < nh; i++ {
		c.Headers = append(c.Headers, append(gen.B("@"), samHeaderAlpha.Field(12, 100, 9000).Draw(t, "header")...))
	}
	nr := rapid.SampledFrom([]int{0, 1, 1, 2, 3, 6}).Draw(t, "nrecs")
	for i := 0; i < nr; i++ {
		c.Recs = append(c.Recs, genSamRec(t))
	}
	return c
}

func sameTagValue(got, want any) bool {
	switch w := want.(type) {
	case byte:
		g, ok := got.(byte)
		return ok && g == w
	case int:
		g, ok := got.(int)
		return ok && g == w
	case float64:
		g, ok := got.(float64)
		return ok && gen.SameFloat(g, w)
	case string:
		g, ok := got.(string)
		return ok && g == w
	case []byte:
		g, ok := got.([]byte)
		return ok && bytes.Equal(g, w)
	}
	return false
}

func sameSAM(got, want *sam.SAM) error {
	if got == nil {
		return fmt.Errorf("nil record")
	}
	type f struct {
		name string
		g, w any
	}
	for _, x := range []f{{"Qname", got.Qname, want.Qname}, {"Flag", got.Flag, want.Flag}, {"Rname", got.Rname, want.Rname},
		{"Pos", got.Pos, want.Pos}, {"Mapq", got.Mapq, want.Mapq}, {"Cigar", got.Cigar, want.Cigar}, {"Rnext", got.Rnext, want.Rnext},
		{"Pnext", got.Pnext, want.Pnext}, {"Tlen", got.Tlen, want.Tlen}, {"Seq", got.Seq, want.Seq}, {"Qual", got.Qual, want.Qual}} {
		if x.g != x.w {
			return fmt.Errorf("field %s = %q, want %q", x.name, x.g, x.w)
		}
	}
	if len(got.Tags) != len(want.Tags) {
		return fmt.Errorf("tags %v, want %v", got.Tags, want.Tags)
	}
	for k, w := range want.Tags {
		g, ok := got.Tags[k]
		if !ok || !sameTagValue(g, w) {
			return fmt.Errorf("tag %s = %#v (present %v), want %#v", k, g, ok, w)
		}
	}
	return nil
}

func copySAM(s *sam.SAM) *sam.SAM {
	c := *s
	if s.Tags != nil {
		c.Tags = map[string]any{}
		for k, v := range s.Tags {
			if b, ok := v.([]byte); ok {
				v = bytes.Clone(b)
			}
			c.Tags[k] = v
		}
	}
	return &c
}

// writeSAM writes one record with both writers and checks the textual claims.
func writeSAM(s *sam.SAM) ([]byte, error) {
	orig := copySAM(s)
	var w bytes.Buffer
	var werr error
	if p := catch(func() { werr = s.Write(&w) }); p != nil || werr != nil {
		return nil, fmt.Errorf("Write failed: panic=%v err=%v", p, werr)
	}
	if err := samePlain(s.Write, w.Bytes()); err != nil {
		return nil, err
	}
	if err := writeAfterFailure(s.Write, w.Bytes()); err != nil {
		return nil, err
	}
	var mt []byte
	var merr error
	if p := catch(func() { mt, merr = s.MarshalText() }); p != nil || merr != nil {
		return nil, fmt.Errorf("MarshalText failed: panic=%v err=%v", p, merr)
	}
	if !bytes.Equal(mt, w.Bytes()) {
		return nil, fmt.Errorf("MarshalText %q differs from Write %q", mt, w.Bytes())
	}
	if err := sameSAM(s, orig); err != nil {
		return nil, fmt.Errorf("writer modified the record: %v", err)
	}
	if bytes.Count(mt, []byte("\n")) != 1 || mt[len(mt)-1] != '\n' {
		return nil, fmt.Errorf("written record does not occupy exactly one line: %q", mt)
	}
	fields := bytes.Split(mt[:len(mt)-1], []byte("\t"))
	if len(fields) != 11+len(s.Tags) {
		return nil, fmt.Errorf("written line has %d fields, want %d: %q", len(fields), 11+len(s.Tags), mt)
	}
	var names []string
	for _, f := range fields[11:] {
		if len(f) < 5 || f[2] != ':' || f[4] != ':' {
			return nil, fmt.Errorf("written tag %q is not NN:T:value", f)
		}
		names = append(names, string(f[:2]))
	}
	if !sort.StringsAreSorted(names) {
		return nil, fmt.Errorf("tags are not written sorted: %v", names)
	}
	return mt, nil
}

type samItem struct {
	h   *string
	s   *sam.SAM
	err error
}

func readSamHeaderItems(data []byte, limit int) ([]samItem, error) {
	var items []samItem
	if p := catch(func() {
		for sh, err := range sam.ReaderHeader(bytes.NewReader(data)) {
			items = append(items, samItem{sh.H, sh.S, err})
			if len(items) > limit {
				break
			}
		}
	}); p != nil {
		return nil, fmt.Errorf("sam.ReaderHeader panicked: %v", p)
	}
	if len(items) > limit {
		return nil, fmt.Errorf("sam.ReaderHeader yields more than %d items", limit)
	}
	return items, nil
}

func readSamItems(data []byte, limit int) ([]samItem, error) {
	var items []samItem
	if p := catch(func() {
		for s, err := range sam.Reader(bytes.NewReader(data)) {
			items = append(items, samItem{nil, s, err})
			if len(items) > limit {
				break
			}
		}
	}); p != nil {
		return nil, fmt.Errorf("sam.Reader panicked: %v", p)
	}
	if len(items) > limit {
		return nil, fmt.Errorf("sam.Reader yields more than %d items", limit)
	}
	return items, nil
}

// SAM specification, section 1.4: bit -> meaning, in the order of the library's accessors.
var samBits = []int{0x1, 0x2, 0x4, 0x8, 0x10, 0x20, 0x40, 0x80, 0x100, 0x200, 0x400, 0x800}

func flagGetters(f sam.Flag) []bool {
	return []bool{f.Multiple(), f.Each(), f.Unmapped(), f.Unmapped2(), f.ReverseComplement(), f.ReverseComplement2(),
		f.First(), f.Last(), f.Secondary(), f.NotPassing(), f.Duplicate(), f.Supplementary()}
}

var flagNames = []string{"Multiple", "Each", "Unmapped", "Unmapped2", "ReverseComplement", "ReverseComplement2",
	"First", "Last", "Secondary", "NotPassing", "Duplicate", "Supplementary"}

func flagSet(f *sam.Flag, j int, v bool) {
	switch j {
	case 0:
		f.SetMultiple(v)
	case 1:
		f.SetEach(v)
	case 2:
		f.SetUnmapped(v)
	case 3:
		f.SetUnmapped2(v)
	case 4:
		f.SetReverseComplement(v)
	case 5:
		f.SetReverseComplement2(v)
	case 6:
		f.SetFirst(v)
	case 7:
		f.SetLast(v)
	case 8:
		f.SetSecondary(v)
	case 9:
		f.SetNotPassing(v)
	case 10:
		f.SetDuplicate(v)
	case 11:
		f.SetSupplementary(v)
	}
}

func checkFlags(v int, o *Obs) error {
	o.NT = true
	o.Class("flags")
	o.ClassIf(v < 0 || v > 4095, "flags with high bits")
	g := flagGetters(sam.Flag(v))
	for j, bit := range samBits {
		if g[j] != (v&bit != 0) {
			return fmt.Errorf("Flag(%#x).%s() = %v, want bit %#x = %v", v, flagNames[j], g[j], bit, v&bit != 0)
		}
		for _, b := range []bool{true, false} {
			f := sam.Flag(v)
			flagSet(&f, j, b)
			want := v &^ bit
			if b {
				want |= bit
			}
			if int(f) != want {
				return fmt.Errorf("Flag(%#x).Set%s(%v) gives %#x, want %#x", v, flagNames[j], b, int(f), want)
			}
		}
	}
	return nil
}

func checkC03(c C03Case, o *Obs) error {
	if c.Kind == "flags" {
		return checkFlags(c.FlagValue, o)
	}
	for _, r := range c.Recs {
		if !r.inDomain() {
			return nil
		}
	}
	for _, h := range c.Headers {
		if len(h) == 0 || h[0] != '@' || bytes.ContainsAny(h, "\r\n") {
			return nil
		}
		o.ClassIf(bytes.Contains(h, []byte(`"`)), `header contains "`)
		o.ClassIf(bytes.Contains(h, []byte("\t")), "header contains TAB")
	}
	hostile := false
	var keeper marshalKeeper
	var file bytes.Buffer
	for _, h := range c.Headers {
		file.Write(h)
		file.WriteByte('\n')
	}
	want := make([]*sam.SAM, len(c.Recs))
	for i, r := range c.Recs {
		want[i] = r.toSAM()
		for _, t := range r.Tags {
			o.Class("tag:" + t.Type)
			o.ClassIf(t.Type == "f" && math.IsNaN(float64(t.F)), "NaN tag")
			o.ClassIf(t.Type == "f" && math.IsInf(float64(t.F), 0), "Inf tag")
			o.ClassIf(t.Type == "Z" && len(t.Z) == 0, "empty string tag")
			o.ClassIf(t.Type == "H" && len(t.H) == 0, "empty H tag")
		}
		for _, f := range [][]byte{r.Qname, r.Rname, r.Cigar, r.Rnext, r.Seq, r.Qual} {
			o.ClassIf(len(f) == 0, "empty field")
			o.ClassIf(len(f) > 0 && f[0] == '"', `field starts with "`)
			if bytes.ContainsAny(f, "\"'@:;,# \x00\x7f\x80\xff\\") {
				hostile = true
			}
		}
		text, err := writeSAM(want[i])
		if err != nil {
			return fmt.Errorf("record %d: %v", i, err)
		}
		// single-record round trip
		items, err := readSamItems(text, 3)
		if err != nil {
			return err
		}
		if len(items) != 1 || items[0].err != nil {
			return fmt.Errorf("record %d: text %q read back as %d items (first error: %v)", i, text, len(items), firstSamErr(items))
		}
		if err := sameSAM(items[0].s, want[i]); err != nil {
			return fmt.Errorf("record %d: text %q read back differently: %v", i, text, err)
		}
		file.Write(text)
		keeper.keep(fmt.Sprintf("record %d", i), text)
	}
	baseSamRec.toSAM().MarshalText()
	if err := keeper.verify(); err != nil {
		return err
	}
	o.ClassIf(hostile, "hostile byte in a field")
	o.NT = (len(c.Recs) >= 1 && (hostile || anyTags(c.Recs))) || (len(c.Headers) >= 1 && len(c.Recs) >= 2)

	// whole file through ReaderHeader and Reader
	n := len(c.Headers) + len(c.Recs)
	hitems, err := readSamHeaderItems(file.Bytes(), n+3)
	if err != nil {
		return err
	}
	if len(hitems) != n {
		return fmt.Errorf("ReaderHeader yields %d items for %d headers + %d records (first error: %v)", len(hitems), len(c.Headers), len(c.Recs), firstSamErr(hitems))
	}
	for i, it := range hitems {
		if it.err != nil {
			return fmt.Errorf("ReaderHeader item %d: error %v", i, it.err)
		}
		if i < len(c.Headers) {
			if it.h == nil || it.s != nil || *it.h != string(c.Headers[i]) {
				return fmt.Errorf("ReaderHeader item %d = (H %v, S %v), want header %q verbatim", i, deref(it.h), it.s, []byte(c.Headers[i]))
			}
		} else {
			if it.h != nil || it.s == nil {
				return fmt.Errorf("ReaderHeader item %d is not a record", i)
			}
			if err := sameSAM(it.s, want[i-len(c.Headers)]); err != nil {
				return fmt.Errorf("ReaderHeader item %d: %v", i, err)
			}
		}
	}
	ritems, err := readSamItems(file.Bytes(), n+3)
	if err != nil {
		return err
	}
	if len(ritems) != len(c.Recs) {
		return fmt.Errorf("Reader yields %d items for %d records (+%d headers; first error: %v)", len(ritems), len(c.Recs), len(c.Headers), firstSamErr(ritems))
	}
	for i, it := range ritems {
		if it.err != nil {
			return fmt.Errorf("Reader item %d: error %v", i, it.err)
		}
		if err := sameSAM(it.s, want[i]); err != nil {
			return fmt.Errorf("Reader item %d: %v", i, err)
		}
	}
	// A consumer owns the records it received: modifying them (their tag maps included) while
	// iterating must not affect the records that follow.
	i := 0
	for s, err := range sam.Reader(bytes.NewReader(file.Bytes())) {
		if err != nil || i >= len(want) {
			return fmt.Errorf("second pass: item %d: unexpected item (error %v)", i, err)
		}
		if err := sameSAM(s, want[i]); err != nil {
			return fmt.Errorf("after the consumer modified the records it received earlier in the same pass: record %d: %v", i, err)
		}
		if s.Tags != nil {
			for _, v := range s.Tags {
				if b, ok := v.([]byte); ok {
					for j := range b {
						b[j] ^= 0x5a
					}
				}
			}
			s.Tags["~~"] = "scribble"
			s.Tags["NM"] = -1
		}
		s.Qname, s.Seq = "scribble", "scribble"
		i++
	}
	if i != len(want) {
		return fmt.Errorf("second pass yields %d records, want %d", i, len(want))
	}
	return nil
}

func anyTags(recs []SamRec) bool {
	for _, r := range recs {
		if len(r.Tags) > 0 {
			return true
		}
	}
	return false
}

func deref(s *string) string {
	if s == nil {
		return "<nil>"
	}
	return fmt.Sprintf("%q", *s)
}

func firstSamErr(items []samItem) error {
	for _, it := range items {
		if it.err != nil {
			return it.err
		}
	}
	return nil
}

var baseSamRec = SamRec{Qname: gen.B("read1"), Flag: 99, Rname: gen.B("chr1"), Pos: 100, Mapq: 60, Cigar: gen.B("4M"), Rnext: gen.B("="),
	Pnext: 200, Tlen: 104, Seq: gen.B("ACGT"), Qual: gen.B("IIII"),
	Tags: []SamTag{{Name: "NM", Type: "i", I: 2}, {Name: "BC", Type: "Z", Z: gen.B("x:y")}}}

func exhaustiveC03(thorough bool, emit func(C03Case) bool) {
	for v := 0; v < 4096; v++ {
		if !emit(C03Case{Kind: "flags", FlagValue: v}) {
			return
		}
	}
	for _, hi := range []int{1 << 12, 1 << 31, 1 << 62, -1 << 63, -4096} {
		for v := 0; v < 4096; v += 7 {
			if !emit(C03Case{Kind: "flags", FlagValue: hi | v}) {
				return
			}
		}
	}
	// every byte outside TAB/CR/LF as the first and as an inner byte of every text field
	for b := 0; b < 256; b++ {
		if b == '\t' || b == '\r' || b == '\n' {
			continue
		}
		for field := 0; field < 7; field++ {
			for pos := 0; pos < 2; pos++ {
				r := baseSamRec
				r.Tags = append([]SamTag(nil), r.Tags...)
				val := gen.B{byte(b), 'x'}
				if pos == 1 {
					val = gen.B{'x', byte(b), 'y'}
				}
				switch field {
				case 0:
					if b == '@' && pos == 0 {
						continue
					}
					r.Qname = val
				case 1:
					r.Rname = val
				case 2:
					r.Cigar = val
				case 3:
					r.Rnext = val
				case 4:
					r.Seq = val
				case 5:
					r.Qual = val
				case 6:
					r.Tags[1].Z = val
				}
				second := baseSamRec
				second.Qname = gen.B("read2")
				if !emit(C03Case{Kind: "file", Headers: []gen.B{gen.B("@HD\tVN:1.6"), append(gen.B("@CO\t"), val...)}, Recs: []SamRec{r, second}}) {
					return
				}
			}
		}
	}
	// multi-byte tokens (BOM, fmt verbs, gzip magic, NEL/NBSP) at the start and inside of every
	// text field of the FIRST record of a file without headers, and of a later record
	// a delimiter next to every other byte, inside and across machine words of Rname and a Z tag
	if !bytePairFields("@:*=\"", "\t\r\n", func(v gen.B) bool {
		r := baseSamRec
		r.Rname = v
		r.Tags = []SamTag{{Name: "NM", Type: "i", I: 2}, {Name: "ZZ", Type: "Z", Z: v}}
		return emit(C03Case{Kind: "file", Recs: []SamRec{r, baseSamRec}})
	}) {
		return
	}
	// twin records: fields of equal length that differ in one byte, in one stream
	if !twinFields(func(a, b gen.B) bool {
		mk := func(q, rn, sq, ql, z gen.B) SamRec {
			r := baseSamRec
			r.Qname, r.Rname, r.Seq, r.Qual = q, rn, sq, ql
			r.Tags = []SamTag{{Name: "NM", Type: "i", I: 2}, {Name: "ZZ", Type: "Z", Z: z}}
			return r
		}
		return emit(C03Case{Kind: "file", Recs: []SamRec{mk(a, a, a, a, a), mk(b, a, a, a, a), mk(a, b, a, a, a), mk(a, a, b, a, a), mk(a, a, a, b, a), mk(a, a, a, a, b), mk(a, a, a, a, a)}})
	}) {
		return
	}
	// long reads without optional tags (and with an empty, non-nil tag list)
	for _, n := range []int{32768, 65536, 1 << 20} {
		r := baseSamRec
		r.Seq = gen.B(bytes.Repeat([]byte("ACGT"), n/4))
		r.Qual = gen.B(bytes.Repeat([]byte("IJ#~"), n/4))
		r.Tags = nil
		second := baseSamRec
		second.Tags = []SamTag{}
		if !emit(C03Case{Kind: "file", Recs: []SamRec{r, second, r}}) {
			return
		}
	}
	for _, tok := range gen.HostileTokens {
		for field := 0; field < 7; field++ {
			for pos := 0; pos < 3; pos++ {
				val := append(append(gen.B{}, tok...), 'x')
				if pos == 1 {
					val = append(append(gen.B{'x'}, tok...), 'y')
				}
				if pos == 2 {
					val = append(gen.B{}, tok...) // the token is the whole field
				}
				r := baseSamRec
				r.Tags = append([]SamTag(nil), r.Tags...)
				switch field {
				case 0:
					r.Qname = val
				case 1:
					r.Rname = val
				case 2:
					r.Cigar = val
				case 3:
					r.Rnext = val
				case 4:
					r.Seq = val
				case 5:
					r.Qual = val
				case 6:
					r.Tags[1].Z = val
				}
				if !emit(C03Case{Kind: "file", Recs: []SamRec{r, baseSamRec, r}}) {
					return
				}
			}
		}
	}
	// long reads: lines beyond bufio's 4096-byte buffer and beyond 64 KiB
	for _, n := range []int{4000, 4096, 9000, 40000, 70000, 200000, 1<<21 + 4} {
		r := baseSamRec
		r.Seq = gen.B(bytes.Repeat([]byte("ACGT"), n/4))
		r.Qual = gen.B(bytes.Repeat([]byte("I\"#~"), n/4))
		r.Tags = []SamTag{{Name: "ZL", Type: "Z", Z: gen.B(bytes.Repeat([]byte("z"), n/2))}}
		second := baseSamRec
		second.Qname = gen.B("after-the-long-one")
		hdr := append(gen.B("@CO\t"), bytes.Repeat([]byte("h"), n)...)
		if !emit(C03Case{Kind: "file", Headers: []gen.B{hdr}, Recs: []SamRec{r, second}}) {
			return
		}
	}
	// many tags: 7..3224 distinct names (every two-character name [A-Za-z][A-Za-z0-9] at the top of
	// the ladder), of all five types in turn, in an order that is not the sorted one; H values of
	// 0..300 bytes
	{
		var names []string
		for _, a := range "ZzAaMmXxYyBbCcDdEeFfGgHhIiJjKkLlNnOoPpQqRrSsTtUuVvWw" {
			for _, b := range "9zA0aZ5mM1x8X2b7B3c6C4dDeEfFgGhHiIjJkKlLnNoOpPqQrRsStTuUvVwWyY" {
				names = append(names, string([]rune{a, b}))
			}
		}
		for _, k := range []int{7, 8, 9, 15, 16, 17, 31, 32, 33, 63, 64, 65, 100, 127, 128, 129, 255, 256, 257, 1000, len(names)} {
			r := baseSamRec
			r.Tags = nil
			for i := 0; i < k; i++ {
				nm := names[(i*37)%len(names)]
				if k == len(names) {
					nm = names[i]
				}
				switch i % 5 {
				case 0:
					r.Tags = append(r.Tags, SamTag{Name: nm, Type: "i", I: i*1000003 - 7})
				case 1:
					r.Tags = append(r.Tags, SamTag{Name: nm, Type: "Z", Z: gen.B(fmt.Sprintf("v%d:\"x", i))})
				case 2:
					r.Tags = append(r.Tags, SamTag{Name: nm, Type: "A", A: '!' + i%94})
				case 3:
					r.Tags = append(r.Tags, SamTag{Name: nm, Type: "f", F: gen.F(float64(i) / 7)})
				case 4:
					r.Tags = append(r.Tags, SamTag{Name: nm, Type: "H", H: gen.B(bytes.Repeat([]byte{byte(i), 0xff, 0x00}, i%101))})
				}
			}
			second := baseSamRec
			second.Qname = gen.B("after-the-many-tags")
			if !emit(C03Case{Kind: "file", Recs: []SamRec{r, second}}) {
				return
			}
		}
	}
	// every printable A value, boundary ints and floats
	for a := '!'; a <= '~'; a++ {
		r := baseSamRec
		r.Tags = []SamTag{{Name: "XA", Type: "A", A: int(a)}}
		if !emit(C03Case{Kind: "file", Recs: []SamRec{r}}) {
			return
		}
	}
	for _, x := range []int{0, -1, 1, math.MaxInt64, math.MinInt64, math.MaxInt32, math.MinInt32} {
		r := baseSamRec
		r.Flag, r.Pos, r.Mapq, r.Pnext, r.Tlen = x, x, x, x, x
		r.Tags = []SamTag{{Name: "XI", Type: "i", I: x}}
		if !emit(C03Case{Kind: "file", Recs: []SamRec{r}}) {
			return
		}
	}
	for _, x := range []float64{0, math.Copysign(0, -1), math.NaN(), math.Inf(1), math.Inf(-1), math.MaxFloat64, math.SmallestNonzeroFloat64, 0.1, 1e21, 1e-7, -123.456} {
		r := baseSamRec
		r.Tags = []SamTag{{Name: "XF", Type: "f", F: gen.F(x)}, {Name: "XH", Type: "H", H: gen.B{}}, {Name: "XZ", Type: "Z"}}
		if !emit(C03Case{Kind: "file", Recs: []SamRec{r}}) {
			return
		}
	}
}

func propC03() Prop[C03Case] {
	return Prop[C03Case]{ID: "C03", Gen: genC03, Exhaustive: exhaustiveC03, Check: checkC03}
}

func TestC03(t *testing.T) { Run(t, propC03()) }

func FuzzGenC03(f *testing.F) { RunFuzz(f, propC03()) }

func TestRaceC03(t *testing.T) { RunConcurrent(t, propC03(), 4) }
