package props

// C14: translation implements the standard genetic code in all reading frames.

import (
	"bytes"
	"fmt"
	"slices"
	"strings"
	"testing"

	"github.com/fluhus/biostuff/sequtil"
	"pgregory.net/rapid"
	"verif/harness/internal/gen"
	"verif/harness/internal/ref"
)

// C14Case: Kind "translate" (Translate(Dst, Seq) incl. panic conditions and the
// concatenation law split at codon Cut), "frames" (TranslateReadingFrames(Seq)),
// "amino" (AminoName on every byte of Seq).
type C14Case struct {
	Kind  string `json:"kind"`
	Dst   gen.B  `json:"dst"`
	Seq   gen.B  `json:"seq"`
	Cut   int    `json:"cut"`
	Spare int    `json:"spare,omitempty"` // capacity of dst, see sentinelDst
	// FirstCall: the named function is run as the first call into the package in a fresh process
	FirstCall string `json:"first_call,omitempty"`
}

func genC14(t *rapid.T, thorough bool) C14Case {
	var c C14Case
	maxLen := 300
	if thorough {
		maxLen = 3000
	}
	c.Kind = rapid.SampledFrom([]string{"translate", "translate", "frames", "frames", "amino"}).Draw(t, "kind")
	if c.Kind == "amino" {
		c.Seq = gen.B(rapid.SliceOfN(rapid.Byte(), 1, 40).Draw(t, "bytes"))
		return c
	}
	alpha := rapid.SampledFrom([]string{dnaLetters, "ACGT", "acgt", "TGA", "tAg"}).Draw(t, "alphabet")
	n := rapid.OneOf(rapid.IntRange(0, 5), rapid.IntRange(0, 40), rapid.IntRange(0, maxLen)).Draw(t, "len")
	if c.Kind == "translate" && rapid.IntRange(0, 5).Draw(t, "round") != 0 {
		n = n / 3 * 3
	}
	c.Seq = gen.B(rapid.SliceOfN(rapid.SampledFrom([]byte(alpha)), n, n).Draw(t, "seq"))
	if n > 0 && rapid.IntRange(0, 9).Draw(t, "bad") == 0 {
		c.Seq[rapid.IntRange(0, n-1).Draw(t, "badpos")] = rapid.Byte().Draw(t, "badbyte")
	}
	c.Dst = gen.B(rapid.SliceOfN(rapid.Byte(), 0, 5).Draw(t, "dst"))
	c.Spare = rapid.IntRange(0, 3).Draw(t, "spare")
	c.Cut = rapid.IntRange(0, n/3).Draw(t, "cut")
	return c
}

func validDNA(s []byte) bool {
	for _, b := range s {
		if ref.BaseCode(b) < 0 {
			return false
		}
	}
	return true
}

func checkC14(c C14Case, o *Obs) (err error) {
	if c.FirstCall != "" {
		o.NT = true
		o.Class("first call in a fresh process")
		return runFirstCall(c.FirstCall)
	}
	// either an exact-capacity slice (nil when empty) or a window with valid bases behind it
	seq := window(c.Seq, (len(c.Seq)+len(c.Dst)+c.Cut+c.Spare)%2 == 0)
	defer func() {
		if err == nil {
			err = windowIntact(seq)
		}
	}()
	seqCopy := bytes.Clone(seq)
	if c.Kind != "amino" {
		warmSequtil(c.Seq, o)
	}
	o.Class("kind:" + c.Kind)
	switch c.Kind {
	case "amino":
		o.NT = len(seq) >= 2
		for _, b := range seq {
			up := b
			if b >= 'a' && b <= 'z' {
				up = b - 32
			}
			accepted := strings.IndexByte(sequtil.AminoAcids, up) >= 0
			var code, name string
			p := catch(func() { code, name = sequtil.AminoName(b) })
			if accepted {
				if p != nil {
					return fmt.Errorf("AminoName(%q) panicked: %v", b, p)
				}
				if code == "" || name == "" {
					return fmt.Errorf("AminoName(%q) = (%q, %q), want non-empty strings", b, code, name)
				}
			} else if p == nil {
				return fmt.Errorf("AminoName(%q) = (%q, %q), want panic (not in AminoAcids)", b, code, name)
			}
		}
		return nil

	case "frames":
		valid := validDNA(seq)
		o.NT = valid && len(seq)%3 != 0
		o.ClassIf(len(seq) < 3, "len<3")
		o.ClassIf(!valid, "invalid byte")
		var got [3][]byte
		p := catch(func() { got = sequtil.TranslateReadingFrames(seq) })
		if !bytes.Equal(seq, seqCopy) {
			return fmt.Errorf("TranslateReadingFrames modified its input")
		}
		if !valid {
			// Only a bad base inside some translated codon must panic; not asserted in detail.
			return nil
		}
		if p != nil {
			return fmt.Errorf("TranslateReadingFrames(%q) (length %d) panicked: %v", seq, len(seq), p)
		}
		// the three results are independent values: appending to one of them must not change another
		want3 := [3][]byte{}
		for i := 0; i < 3; i++ {
			want3[i] = bytes.Clone(got[i])
		}
		for i := 0; i < 3; i++ {
			ext := append(got[i], "XYZXYZXYZ"...)
			for j := 0; j < 3; j++ {
				if j != i && !bytes.Equal(got[j], want3[j]) {
					return fmt.Errorf("appending to frame %d of TranslateReadingFrames(%q) changed frame %d from %q to %q (results share storage)", i, seq, j, want3[j], got[j])
				}
			}
			_ = ext
		}
		// the caller edits its buffer in place and asks again (a read buffer refilled with a read of
		// the same length): the answer is about what the buffer holds then
		if len(seq) >= 4 && len(seq) <= 70000 {
			buf := bytes.Clone(seq)
			catch(func() { sequtil.TranslateReadingFrames(buf) })
			for i := 1; i < len(buf); i += 3 {
				buf[i] = "ACGTacgt"[(int(buf[i])+i)%8]
			}
			var again [3][]byte
			if p := catch(func() { again = sequtil.TranslateReadingFrames(buf) }); p != nil {
				return fmt.Errorf("TranslateReadingFrames panicked on a buffer edited in place after an earlier call: %v", p)
			}
			for i := 0; i < 3; i++ {
				sub := buf[min(i, len(buf)):]
				want, _ := ref.Translate(sub[:len(sub)/3*3])
				if !bytes.Equal(again[i], want) {
					return fmt.Errorf("TranslateReadingFrames was called on the caller's buffer (%d bases), the caller substituted every third base in place and called again: frame %d is not the translation of what the buffer holds now", len(buf), i)
				}
			}
		}
		for i := 0; i < 3; i++ {
			sub := seq[min(i, len(seq)):]
			sub = sub[:len(sub)/3*3]
			want, _ := ref.Translate(sub)
			if !bytes.Equal(got[i], want) {
				return fmt.Errorf("TranslateReadingFrames(%q)[%d] = %q, want %q", seq, i, got[i], want)
			}
			var direct []byte
			if p := catch(func() { direct = sequtil.Translate(nil, sub) }); p != nil || !bytes.Equal(direct, got[i]) {
				return fmt.Errorf("frame %d of %q = %q but Translate of the trimmed suffix = %q (panic %v)", i, seq, got[i], direct, p)
			}
		}
		// results belong to the caller: they survive a later call on another sequence
		{
			first := [3][]byte{}
			var held [3][]byte
			if p := catch(func() { held = sequtil.TranslateReadingFrames(seq) }); p != nil {
				return fmt.Errorf("a second TranslateReadingFrames(%q) panicked: %v", seq, p)
			}
			for i := range held {
				first[i] = bytes.Clone(held[i])
			}
			other := bytes.Clone(seq)
			slices.Reverse(other)
			other = append(other, "GATTACA"...)
			if p := catch(func() { sequtil.TranslateReadingFrames(other) }); p != nil {
				return fmt.Errorf("TranslateReadingFrames(%q) panicked: %v", other, p)
			}
			for i := range held {
				if !bytes.Equal(held[i], first[i]) {
					return fmt.Errorf("frame %d of TranslateReadingFrames(%q), still held by the caller, changed from %q to %q when TranslateReadingFrames(%q) was called", i, seq, first[i], held[i], other)
				}
			}
		}
		return nil
	}

	// kind "translate"
	want, ok := ref.Translate(seq)
	lower23 := false
	for i, b := range seq {
		if i%3 != 0 && b >= 'a' {
			lower23 = true
		}
	}
	o.NT = ok && len(seq) >= 6
	o.ClassIf(len(seq)%3 != 0, "len%3!=0")
	o.ClassIf(!validDNA(seq), "invalid byte")
	o.ClassIf(lower23, "lower in pos 2/3")
	o.ClassIf(len(c.Dst) > 0, "non-empty dst")
	buf := sentinelDst(c.Dst, len(seq)/3, c.Spare)
	var got []byte
	p := catch(func() { got = sequtil.Translate(buf, seq) })
	if !bytes.Equal(seq, seqCopy) {
		return fmt.Errorf("Translate modified src")
	}
	if !ok {
		if p == nil {
			return fmt.Errorf("Translate(%q) (length %d) returned %q, want panic", seq, len(seq), got)
		}
		return nil
	}
	if p != nil {
		return fmt.Errorf("Translate(%q) panicked: %v", seq, p)
	}
	if !bytes.Equal(buf[:len(c.Dst)], c.Dst) {
		return fmt.Errorf("Translate modified dst's existing content")
	}
	if len(got) != len(c.Dst)+len(want) || !bytes.Equal(got[:len(c.Dst)], c.Dst) || !bytes.Equal(got[len(c.Dst):], want) {
		return fmt.Errorf("Translate(dst=%q, %q) = %q, want dst followed by %q", []byte(c.Dst), seq, got, want)
	}
	cut := 3 * min(max(c.Cut, 0), len(seq)/3)
	x := sequtil.Translate(nil, seq[:cut])
	y := sequtil.Translate(nil, seq[cut:])
	if !bytes.Equal(append(x, y...), want) {
		return fmt.Errorf("Translate(x)+Translate(y) = %q+%q differs from Translate(x+y) = %q (x=%q y=%q)", x, y, want, seq[:cut], seq[cut:])
	}
	// appending the second half to the first translation (whatever capacity that result has)
	z := sequtil.Translate(sequtil.Translate(nil, seq[:cut]), seq[cut:])
	if !bytes.Equal(z, want) {
		return fmt.Errorf("Translate(Translate(nil,x),y) = %q, want %q", z, want)
	}
	// The result belongs to the caller, who edits it in place (soft-masks it, say); the same
	// call made again - with a nil dst, codon by codon and as a whole - still gives the answer.
	for n := 0; n+3 <= min(len(seq), 12); n += 3 {
		one := sequtil.Translate(nil, seq[n:n+3])
		for i := range one {
			one[i] = '#'
		}
	}
	whole := sequtil.Translate(nil, seq)
	for i := range whole {
		whole[i] = '#'
	}
	for n := 0; n+3 <= min(len(seq), 12); n += 3 {
		if one := sequtil.Translate(nil, seq[n:n+3]); !bytes.Equal(one, want[n/3:n/3+1]) {
			return fmt.Errorf("Translate(nil, %q) = %q, want %q, after the caller overwrote the result of an earlier, equal call", seq[n:n+3], one, want[n/3:n/3+1])
		}
	}
	if again := sequtil.Translate(nil, seq); !bytes.Equal(again, want) {
		return fmt.Errorf("Translate(nil, %q) = %q, want %q, after the caller overwrote the result of an earlier, equal call", seq, again, want)
	}
	return nil
}

func exhaustiveC14(thorough bool, emit func(C14Case) bool) {
	if !emit(C14Case{FirstCall: "Translate"}) {
		return
	}
	if !emit(C14Case{FirstCall: "TranslateReadingFrames"}) {
		return
	}
	if !emit(C14Case{FirstCall: "AminoName"}) {
		return
	}
	if !emit(C14Case{FirstCall: "Translate-panics"}) {
		return
	}
	// gene- and contig-sized coding sequence (size ladder), real-data-shaped
	for i, n := range sizeLadderLinear {
		s := realDNA(n, i, false, true)
		if !emit(C14Case{Kind: "frames", Seq: s}) || !emit(C14Case{Kind: "translate", Seq: s[:n/3*3], Cut: n / 7}) {
			return
		}
		// the same with one foreign byte, or one whole codon of NUL / 0xff / blanks / N (the panic
		// must come whatever block it is in), each followed by a valid call of the same size
		if n >= 4095 {
			m := n / 3 * 3
			for j, pos := range foreignPositions(m) {
				bad := bytes.Clone(s[:m])
				bad[pos] = "x\x00UN\xff@"[j%6]
				cod := bytes.Clone(s[:m])
				c0 := pos / 3 * 3
				cod[c0], cod[c0+1], cod[c0+2] = "\x00\xff N-"[j%5], "\x00\xff N-"[j%5], "\x00\xff N-"[j%5]
				if !emit(C14Case{Kind: "translate", Seq: bad}) || !emit(C14Case{Kind: "translate", Seq: cod}) || !emit(C14Case{Kind: "translate", Seq: realDNA(m, i+j+1, false, false)}) {
					return
				}
			}
		}
	}
	// a codon of three equal foreign bytes at the start, in the middle and at the end of sequences
	// of 48..200 bases, all upper case, all lower case and mixed
	for _, n := range []int{48, 51, 96, 99, 192, 201} {
		for v := 0; v < 3; v++ {
			s := realDNA(n, n+v, false, v == 2)
			if v == 0 {
				s = bytes.ToUpper(s)
			} else if v == 1 {
				s = bytes.ToLower(s)
			}
			for _, c0 := range []int{0, n / 6 * 3, n - 3} {
				for _, f := range []byte{0, 0xff, ' ', 'N', '-', 'U'} {
					bad := bytes.Clone(s)
					bad[c0], bad[c0+1], bad[c0+2] = f, f, f
					if !emit(C14Case{Kind: "translate", Seq: bad}) {
						return
					}
				}
			}
		}
	}
	// a megabase coding sequence, valid and with one, two and three foreign bytes far apart: the
	// panic must reach the caller
	{
		n := 1<<20 + 2
		mb := realDNA(n, 11, false, true)
		if !emit(C14Case{Kind: "translate", Seq: mb, Cut: n / 3}) {
			return
		}
		// megabase lengths that are not a multiple of three (must panic like any other)
		for _, cut := range []int{1 << 20, 1<<20 + 1, n - 1} {
			if !emit(C14Case{Kind: "translate", Seq: mb[:cut]}) {
				return
			}
		}
		for _, positions := range [][]int{{n / 2}, {1000, n - 1000}, {0, n / 2, n - 1}, {1<<18 - 1, 1 << 18, 3 << 18}} {
			bad := bytes.Clone(mb)
			for _, pos := range positions {
				bad[pos] = "NU@x"[pos%4]
			}
			if !emit(C14Case{Kind: "translate", Seq: bad}) {
				return
			}
		}
	}
	all := make([]byte, 256)
	for i := range all {
		all[i] = byte(i)
	}
	if !emit(C14Case{Kind: "amino", Seq: all}) {
		return
	}
	for b := 0; b < 256; b++ {
		if !emit(C14Case{Kind: "amino", Seq: gen.B{byte(b)}}) {
			return
		}
	}
	// 64 codons x 8 case patterns, alone and embedded between two other codons.
	for i := 0; i < 64; i++ {
		for cs := 0; cs < 8; cs++ {
			cod := []byte{"ACGT"[i>>4], "ACGT"[(i>>2)&3], "ACGT"[i&3]}
			for j := 0; j < 3; j++ {
				if cs&(1<<j) != 0 {
					cod[j] |= 0x20
				}
			}
			if !emit(C14Case{Kind: "translate", Seq: bytes.Clone(cod)}) {
				return
			}
			emb := append(append([]byte("atG"), cod...), "Tga"...)
			if !emit(C14Case{Kind: "translate", Seq: emb, Dst: gen.B("M"), Cut: 1 + cs%2, Spare: (i + cs) % 4}) {
				return
			}
		}
	}
	// Every byte in each codon position.
	for b := 0; b < 256; b++ {
		for pos := 0; pos < 3; pos++ {
			cod := []byte("ACG")
			cod[pos] = byte(b)
			if !emit(C14Case{Kind: "translate", Seq: cod}) {
				return
			}
		}
	}
	// Every byte before and after valid sequences of 0 to 7 bases (a foreign byte at either end of
	// an input whose length is, or is not, a multiple of three: "ACG\n", "\tACGTA").
	for b := 0; b < 256; b++ {
		for n := 0; n <= 7; n++ {
			body := []byte("acGTTGca")[:n]
			for _, s := range [][]byte{append(bytes.Clone(body), byte(b)), append([]byte{byte(b)}, body...), append(append([]byte{byte(b)}, body...), byte(b))} {
				if !emit(C14Case{Kind: "translate", Seq: s}) {
					return
				}
			}
		}
	}
	// Every pair of bytes in two codon positions (includes every valid two-byte UTF-8 sequence).
	for a := 0; a < 256; a++ {
		for b := 0; b < 256; b++ {
			for _, cod := range [][]byte{{byte(a), byte(b), 'G'}, {'a', byte(a), byte(b)}} {
				if !emit(C14Case{Kind: "translate", Seq: cod}) {
					return
				}
			}
		}
	}
	// Every length for the frame law and the length rule, three letter patterns.
	maxLen := 40
	if thorough {
		maxLen = 200
	}
	pats := []string{"ACGTTGCA", "a", "tgaCTAgat"}
	for n := 0; n <= maxLen; n++ {
		for _, p := range pats {
			s := []byte(strings.Repeat(p, n/len(p)+1)[:n])
			if !emit(C14Case{Kind: "frames", Seq: s}) || !emit(C14Case{Kind: "frames", Seq: s, Spare: 1}) || !emit(C14Case{Kind: "translate", Seq: s, Cut: n / 6}) {
				return
			}
		}
	}
}

func propC14() Prop[C14Case] {
	big := func(c C14Case) bool { return len(c.Seq) >= 1<<20 && c.Kind == "translate" }
	return Prop[C14Case]{ID: "C14", Gen: genC14, Exhaustive: exhaustiveC14, Check: checkC14, Risky: big, MustTerminate: big}
}

func TestC14(t *testing.T) { Run(t, propC14()) }

func FuzzGenC14(f *testing.F) { RunFuzz(f, propC14()) }

func TestRaceC14(t *testing.T) { RunConcurrent(t, propC14(), 4) }
