package props

// C13: 2-bit DNA packing is lossless and append-only.

import (
	"bytes"
	"fmt"
	"testing"

	"github.com/fluhus/biostuff/sequtil"
	"pgregory.net/rapid"
	"verif/harness/internal/gen"
	"verif/harness/internal/ref"
)

// C13Case: Kind "dna" packs Data (a DNA string, possibly with a bad byte) after Dst;
// Kind "packed" unpacks and re-packs Data (arbitrary bytes) after Dst; Kind "ntoi"
// checks Ntoi/Iton on every byte of Data.
type C13Case struct {
	Kind  string `json:"kind"`
	Dst   gen.B  `json:"dst"`
	Data  gen.B  `json:"data"`
	Spare int    `json:"spare,omitempty"` // capacity of dst, see sentinelDst
	// Huge: Kind "huge" packs and unpacks one sequence of this many bases (a whole large
	// chromosome; thorough tier only), made inside the check
	Huge int `json:"huge,omitempty"`
	// FirstCall: the named function is run as the first call into the package in a fresh process
	FirstCall string `json:"first_call,omitempty"`
}

const dnaLetters = "aAcCgGtT"

func genC13(t *rapid.T, thorough bool) C13Case {
	var c C13Case
	maxLen := 600
	if thorough {
		maxLen = 6000
	}
	c.Dst = gen.B(rapid.SliceOfN(rapid.Byte(), 0, 7).Draw(t, "dst"))
	c.Spare = rapid.IntRange(0, 3).Draw(t, "spare")
	c.Kind = rapid.SampledFrom([]string{"dna", "dna", "dna", "packed", "ntoi"}).Draw(t, "kind")
	n := rapid.OneOf(rapid.IntRange(0, 9), rapid.IntRange(0, 70), rapid.IntRange(0, maxLen)).Draw(t, "len")
	switch c.Kind {
	case "dna":
		alpha := rapid.SampledFrom([]string{dnaLetters, "ACGT", "acgt", "Tt"}).Draw(t, "alphabet")
		c.Data = gen.B(rapid.SliceOfN(rapid.SampledFrom([]byte(alpha)), n, n).Draw(t, "dna"))
		if n > 0 && rapid.IntRange(0, 9).Draw(t, "bad") == 0 {
			c.Data[rapid.IntRange(0, n-1).Draw(t, "badpos")] = rapid.Byte().Draw(t, "badbyte")
		}
	default:
		c.Data = gen.B(rapid.SliceOfN(rapid.Byte(), n, n).Draw(t, "bytes"))
	}
	return c
}

// sentinelDst returns a copy of dst whose spare capacity is filled with sentinel bytes.
// spare selects the capacity: 0 = ample (room for everything that will be appended),
// 1 = none (cap == len), 2 = one byte, 3 = exactly what will be appended.
func sentinelDst(dst []byte, extra int, spare int) []byte {
	capacity := len(dst) + extra + 8
	switch spare {
	case 1:
		capacity = len(dst)
	case 2:
		capacity = len(dst) + 1
	case 3:
		capacity = len(dst) + extra
	}
	buf := make([]byte, len(dst), capacity)
	copy(buf, dst)
	rest := buf[len(buf):cap(buf)]
	for i := range rest {
		rest[i] = 0xEE
	}
	return buf
}

// window returns a copy of s that is a window of a larger buffer: valid bases follow it in the
// backing array (cap > len), as when a caller slices a read out of a larger sequence.
//
// With exact set, the copy has no spare capacity at all (nil for an empty s): both shapes occur
// in real programs and slicing bugs show with one or the other.
func window(s []byte, exact ...bool) []byte {
	if len(exact) > 0 && exact[0] {
		if len(s) == 0 {
			return nil
		}
		return bytes.Clone(s)[:len(s):len(s)]
	}
	buf := make([]byte, 0, len(s)+12)
	buf = append(buf, s...)
	buf = append(buf, windowTail...)
	return buf[:len(s)]
}

// windowTail is what follows a window in its backing array: bases other than 'A' first, so that
// a read beyond the end of the window shows in the result (padding is 'A', i.e. zero bits).
const windowTail = "TGCATGCATGCA"

// windowIntact verifies that the bytes behind a window made by window() were not written.
func windowIntact(w []byte) error {
	if cap(w) == len(w) {
		return nil
	}
	if tail := w[len(w):cap(w)]; string(tail) != windowTail {
		return fmt.Errorf("the caller's memory behind the input slice (its spare capacity, which holds the caller's next bases) was written: %q became %q (input %q)", windowTail, tail, w)
	}
	return nil
}

func checkC13(c C13Case, o *Obs) (err error) {
	if c.FirstCall != "" {
		o.NT = true
		o.Class("first call in a fresh process")
		return runFirstCall(c.FirstCall)
	}
	data := window(c.Data, (len(c.Data)+len(c.Dst)+c.Spare)%2 == 0)
	defer func() {
		if err == nil {
			err = windowIntact(data)
		}
	}()
	dataCopy := bytes.Clone(data)
	if c.Kind == "dna" {
		warmSequtil(c.Data, o)
	}
	o.Class("kind:" + c.Kind)
	o.ClassIf(len(c.Dst) > 0, "non-empty dst")
	o.ClassIf(len(c.Dst) > 0 && c.Spare != 0, "non-empty dst with tight capacity")
	switch c.Kind {
	case "huge":
		if c.Huge < 1<<20 || c.Huge > 1<<29 {
			return nil
		}
		o.NT = true
		unit := []byte("ACGTTGCAacgttgcaGATTACA")
		big := bytes.Repeat(unit, c.Huge/len(unit)+1)[:c.Huge]
		var packed []byte
		if p := catch(func() { packed = sequtil.DNATo2Bit(nil, big) }); p != nil {
			return fmt.Errorf("DNATo2Bit of %d valid bases panicked: %v", c.Huge, p)
		}
		if len(packed) != (c.Huge+3)/4 {
			return fmt.Errorf("DNATo2Bit of %d bases appended %d bytes, want %d", c.Huge, len(packed), (c.Huge+3)/4)
		}
		// first and last 64 bases (offsets that are multiples of four)
		tailFrom := (c.Huge - 64) / 4 * 4
		if !bytes.Equal(packed[:16], ref.Pack2Bit(big[:64])) || !bytes.Equal(packed[tailFrom/4:], ref.Pack2Bit(big[tailFrom:])) {
			return fmt.Errorf("DNATo2Bit of %d bases: first or last packed bytes are wrong", c.Huge)
		}
		big = nil
		var text []byte
		if p := catch(func() { text = sequtil.DNAFrom2Bit(nil, packed) }); p != nil {
			return fmt.Errorf("DNAFrom2Bit of %d packed bytes panicked: %v", len(packed), p)
		}
		if len(text) != 4*len(packed) || !bytes.Equal(text[:23], bytes.ToUpper(unit)) {
			return fmt.Errorf("DNAFrom2Bit of %d packed bytes gives %d bases starting %q", len(packed), len(text), text[:23])
		}
		return nil
	case "ntoi":
		o.NT = len(data) >= 2
		for _, b := range data {
			got := sequtil.Ntoi(b)
			want := ref.BaseCode(b)
			if want >= 0 {
				if got != want {
					return fmt.Errorf("Ntoi(%q)=%d, want %d", b, got, want)
				}
				up := b &^ 0x20
				if sequtil.Iton(got) != up {
					return fmt.Errorf("Iton(Ntoi(%q))=%q, want %q", b, sequtil.Iton(got), up)
				}
			} else if got >= 0 && got <= 3 {
				return fmt.Errorf("Ntoi(%q)=%d for a byte outside aAcCgGtT", b, got)
			}
		}
		for i := 0; i < 4; i++ {
			if sequtil.Ntoi(sequtil.Iton(i)) != i || sequtil.Iton(i) != "ACGT"[i] {
				return fmt.Errorf("Iton(%d)=%q, Ntoi of it = %d", i, sequtil.Iton(i), sequtil.Ntoi(sequtil.Iton(i)))
			}
		}
		return nil

	case "packed":
		o.NT = len(data) >= 1
		buf := sentinelDst(c.Dst, 4*len(data), c.Spare)
		var dna []byte
		if p := catch(func() { dna = sequtil.DNAFrom2Bit(buf, data) }); p != nil {
			return fmt.Errorf("DNAFrom2Bit panicked: %v", p)
		}
		if !bytes.Equal(data, dataCopy) || !bytes.Equal(buf[:len(c.Dst)], c.Dst) {
			return fmt.Errorf("DNAFrom2Bit modified its input or dst's existing content")
		}
		want := ref.Unpack2Bit(data)
		if len(dna) != len(c.Dst)+len(want) || !bytes.Equal(dna[:len(c.Dst)], c.Dst) || !bytes.Equal(dna[len(c.Dst):], want) {
			return fmt.Errorf("DNAFrom2Bit(dst=%q, %x) = %q, want dst followed by %q", []byte(c.Dst), data, dna, want)
		}
		// the result belongs to the caller: editing it in place must not influence later calls
		for _, one := range data {
			r := sequtil.DNAFrom2Bit(nil, []byte{one})
			for i := range r {
				r[i] |= 0x20 // lower-case it in place
			}
			if again := sequtil.DNAFrom2Bit(nil, []byte{one}); !bytes.Equal(again, ref.Unpack2Bit([]byte{one})) {
				return fmt.Errorf("after the caller lower-cased an earlier result in place, DNAFrom2Bit(nil, %02x) = %q, want %q", one, again, ref.Unpack2Bit([]byte{one}))
			}
		}
		for i := len(c.Dst); i < len(dna); i++ {
			dna[i] = 'x'
		}
		if again := sequtil.DNAFrom2Bit(nil, data); !bytes.Equal(again, want) {
			return fmt.Errorf("after the caller modified an earlier result, DNAFrom2Bit(nil, %x) = %q, want %q", data, again, want)
		}
		var back []byte
		if p := catch(func() { back = sequtil.DNATo2Bit(nil, sequtil.DNAFrom2Bit(nil, data)) }); p != nil {
			return fmt.Errorf("DNATo2Bit(DNAFrom2Bit(%x)) panicked: %v", data, p)
		}
		if !bytes.Equal(back, data) {
			return fmt.Errorf("DNATo2Bit(DNAFrom2Bit(%x)) = %x", data, back)
		}
		return nil
	}

	// kind "dna"
	valid, lower := true, false
	for _, b := range data {
		if ref.BaseCode(b) < 0 {
			valid = false
		}
		if b >= 'a' {
			lower = true
		}
	}
	o.Class(fmt.Sprintf("len%%4==%d", len(data)%4))
	o.ClassIf(lower, "lower case")
	o.ClassIf(!valid, "invalid byte")
	o.NT = valid && (len(data)%4 != 0 || len(c.Dst) > 0) && len(data) > 0
	buf := sentinelDst(c.Dst, (len(data)+3)/4, c.Spare)
	var got []byte
	p := catch(func() { got = sequtil.DNATo2Bit(buf, data) })
	if !bytes.Equal(data, dataCopy) {
		return fmt.Errorf("DNATo2Bit modified src")
	}
	if !valid {
		if p == nil {
			return fmt.Errorf("DNATo2Bit(%q) did not panic on a byte outside aAcCgGtT", data)
		}
		return nil
	}
	if p != nil {
		return fmt.Errorf("DNATo2Bit(%q) panicked: %v", data, p)
	}
	if !bytes.Equal(buf[:len(c.Dst)], c.Dst) {
		return fmt.Errorf("DNATo2Bit modified dst's existing content: %x -> %x", []byte(c.Dst), buf[:len(c.Dst)])
	}
	want := ref.Pack2Bit(data)
	if len(want) != (len(data)+3)/4 {
		panic("reference packer is wrong")
	}
	if len(got) != len(c.Dst)+len(want) || !bytes.Equal(got[:len(c.Dst)], c.Dst) || !bytes.Equal(got[len(c.Dst):], want) {
		return fmt.Errorf("DNATo2Bit(dst=%x, %q) = %x, want dst followed by %x", []byte(c.Dst), data, got, want)
	}
	dna := sequtil.DNAFrom2Bit(nil, got[len(c.Dst):])
	wantDNA := bytes.ToUpper(data)
	for len(wantDNA)%4 != 0 {
		wantDNA = append(wantDNA, 'A')
	}
	if !bytes.Equal(dna, wantDNA) {
		return fmt.Errorf("DNAFrom2Bit(DNATo2Bit(%q)) = %q, want %q", data, dna, wantDNA)
	}
	return nil
}

func exhaustiveC13(thorough bool, emit func(C13Case) bool) {
	if !emit(C13Case{FirstCall: "DNATo2Bit"}) {
		return
	}
	if !emit(C13Case{FirstCall: "DNAFrom2Bit"}) {
		return
	}
	if !emit(C13Case{FirstCall: "Ntoi"}) {
		return
	}
	if !emit(C13Case{FirstCall: "Iton"}) {
		return
	}
	if !emit(C13Case{FirstCall: "DNATo2Bit-panics"}) {
		return
	}
	// Ntoi and Iton first, before anything else in this process has used the package (tables
	// built on first use must be built for them too).
	{
		all := make([]byte, 256)
		for i := range all {
			all[i] = byte(i)
		}
		if !emit(C13Case{Kind: "ntoi", Data: all}) {
			return
		}
	}
	// Real-data-shaped DNA (homopolymer runs at every alignment, microsatellites, poly-A tails,
	// mixed case) of every length up to 300 and on the size ladder, and its packed form.
	for n := 1; n <= 300; n++ {
		s := realDNA(n, n, false, n%2 == 0)
		if !emit(C13Case{Kind: "dna", Data: s, Spare: n % 4}) || !emit(C13Case{Kind: "dna", Data: append(bytes.Clone(s), bytes.Repeat([]byte("A"), n%23)...), Dst: gen.B{7}}) {
			return
		}
		if !emit(C13Case{Kind: "packed", Data: ref.Pack2Bit(s)}) || !emit(C13Case{Kind: "packed", Data: bytes.Repeat([]byte{byte(n), byte(n)}, 1+n%9)}) {
			return
		}
	}
	for i, n := range sizeLadderLinear {
		s := realDNA(n, i, false, true)
		if !emit(C13Case{Kind: "dna", Data: s, Spare: i % 4}) || !emit(C13Case{Kind: "packed", Data: ref.Pack2Bit(s)}) || !emit(C13Case{Kind: "packed", Data: s}) {
			return
		}
		// the same with one foreign byte (the panic must come whatever block the byte is in), each
		// followed by a valid call of the same size
		if n >= 4095 {
			for j, pos := range foreignPositions(n) {
				bad := realDNA(n, i, false, true)
				bad[pos] = "x\x00UN\xff@"[j%6]
				if !emit(C13Case{Kind: "dna", Data: bad}) || !emit(C13Case{Kind: "dna", Data: realDNA(n, i+j+1, false, false)}) {
					return
				}
			}
		}
	}
	// a megabase sequence (beyond any threshold for working in pieces or in parallel), valid and
	// with one foreign byte in the middle: the panic must reach the caller
	{
		mb := realDNA(1<<20+3, 5, false, true)
		bad := bytes.Clone(mb)
		bad[len(bad)/2+1] = 'N'
		if !emit(C13Case{Kind: "dna", Data: mb}) || !emit(C13Case{Kind: "dna", Data: bad}) {
			return
		}
		// ... also with two or three foreign bytes far apart (each piece of a piecewise
		// implementation meets one)
		n := len(mb)
		for _, positions := range [][]int{{1000, n - 1000}, {0, n / 2, n - 1}, {1<<18 - 1, 1 << 18, 3 << 18}} {
			bad := bytes.Clone(mb)
			for _, pos := range positions {
				bad[pos] = "NU@x"[pos%4]
			}
			if !emit(C13Case{Kind: "dna", Data: bad}) {
				return
			}
		}
	}
	// one sequence as long as a large chromosome arm (2^28 bases and a few): no length is special
	if thorough {
		if !emit(C13Case{Kind: "huge", Huge: 1<<28 + 5}) {
			return
		}
	}
	// Ntoi on all 256 bytes.
	all := make([]byte, 256)
	for i := range all {
		all[i] = byte(i)
	}
	if !emit(C13Case{Kind: "ntoi", Data: all}) {
		return
	}
	// Packed direction: all single bytes and all byte pairs.
	for a := 0; a < 256; a++ {
		if !emit(C13Case{Kind: "packed", Data: gen.B{byte(a)}, Dst: gen.B("q")}) {
			return
		}
		for b := 0; b < 256; b++ {
			if !emit(C13Case{Kind: "packed", Data: gen.B{byte(a), byte(b)}}) {
				return
			}
		}
	}
	// Every byte as a one-base and as the third base of a DNA string (accept/panic boundary).
	for b := 0; b < 256; b++ {
		if !emit(C13Case{Kind: "dna", Data: gen.B{byte(b)}}) || !emit(C13Case{Kind: "dna", Data: gen.B{'A', 'c', byte(b), 'T', 'g'}, Dst: gen.B{1, 2, 3}}) {
			return
		}
	}
	// Every byte value directly after every base at every position of an 8-byte word inside a longer
	// string (word-at-a-time validation must not let a neighbour's bits decide).
	for _, base := range []byte("aAcCgGtT") {
		for x := 0; x < 256; x++ {
			for pos := 1; pos < 8; pos++ {
				w := bytes.Repeat([]byte("a"), 19)
				w[8+pos-1], w[8+pos] = base, byte(x)
				if !emit(C13Case{Kind: "dna", Data: w, Spare: pos % 4}) {
					return
				}
			}
		}
	}
	// Every two-byte string (includes every valid two-byte UTF-8 sequence) for the accept/panic boundary.
	for a := 0; a < 256; a++ {
		for b := 0; b < 256; b++ {
			if !emit(C13Case{Kind: "dna", Data: gen.B{byte(a), byte(b)}, Spare: (a + b) % 4}) {
				return
			}
		}
	}
	// All DNA strings up to a length bound over the eight letters, dst prefixes of every length mod 4.
	maxLen := 6
	if thorough {
		maxLen = 7
	}
	dsts := []gen.B{nil, {0xff}, {0, 1}, {9, 9, 9}, {1, 2, 3, 4}}
	n := 0
	var rec func(prefix []byte) bool
	rec = func(prefix []byte) bool {
		n++
		if !emit(C13Case{Kind: "dna", Data: bytes.Clone(prefix), Dst: dsts[n%len(dsts)], Spare: (n / len(dsts)) % 4}) {
			return false
		}
		if len(prefix) == maxLen {
			return true
		}
		for i := 0; i < len(dnaLetters); i++ {
			if !rec(append(prefix, dnaLetters[i])) {
				return false
			}
		}
		return true
	}
	rec(nil)
}

func keyC13(c C13Case) []byte {
	k := append([]byte(c.Kind), byte(len(c.Dst)), byte(c.Spare), byte(c.Huge>>24), byte(c.Huge))
	k = append(k, c.FirstCall...)
	k = append(k, c.Dst...)
	k = append(k, 0)
	return append(k, c.Data...)
}

func propC13() Prop[C13Case] {
	return Prop[C13Case]{ID: "C13", Gen: genC13, Exhaustive: exhaustiveC13, Check: checkC13, Key: keyC13,
		// announced before they run: a panic raised on a goroutine started by the library kills
		// the process and no caller can recover it
		Risky:         func(c C13Case) bool { return len(c.Data) >= 1<<20 || c.Huge > 0 },
		MustTerminate: func(c C13Case) bool { return len(c.Data) >= 1<<20 }}
}

func TestC13(t *testing.T) { Run(t, propC13()) }

func FuzzGenC13(f *testing.F) { RunFuzz(f, propC13()) }

func TestRaceC13(t *testing.T) { RunConcurrent(t, propC13(), 4) }
