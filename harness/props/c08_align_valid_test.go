package props

// C08: alignments returned by Global and Local are valid and score what they claim.

import (
	"bytes"
	"fmt"
	"github.com/fluhus/biostuff/align"
	"slices"
	"testing"

	"pgregory.net/rapid"
	"verif/harness/internal/gen"
	"verif/harness/internal/ref"
)

func genC08(t *rapid.T, thorough bool) AlignCase {
	var c AlignCase
	maxLen := 40
	if thorough {
		maxLen = 150
	}
	c.Local = rapid.Bool().Draw(t, "local")
	if rapid.IntRange(0, 4).Draw(t, "shipped") == 0 {
		c.M = MatSpec{Named: rapid.SampledFrom(shippedNames).Draw(t, "matrix")}
	} else if c.Local {
		// Local: non-positive gap and gap-open scores (statement).
		c.M = genMatSpec(t, matOpts{openLo: -6, openHi: 0, gapLo: -6, gapHi: 0})
	} else {
		// Global: any sign of gap and gap-open scores.
		c.M = genMatSpec(t, matOpts{openLo: -6, openHi: 3, gapLo: -6, gapHi: 3})
	}
	c.Mutate = genMatMutation(t, c.M)
	letters := c.M.letters()
	c.A = genSeqOver(t, letters, maxLen, "a")
	if rapid.Bool().Draw(t, "related") {
		c.B = genRelated(t, c.A, letters)
	} else {
		c.B = genSeqOver(t, letters, maxLen, "b")
	}
	return c
}

// checkValidity is the C08 oracle; it is also applied inside C09/C10.
func checkValidity(c AlignCase, rm ref.Matrix, res alignResult, o *Obs) error {
	name := "Global"
	if c.Local {
		name = "Local"
	}
	ai, bi := res.ai, res.bi
	if !c.Local {
		ai, bi = 0, 0
	}
	if c.Local && len(res.steps) == 0 {
		// Offsets are unconstrained when there is no alignment; the score must be 0.
		if !near(res.score, 0, c.M.tol()) {
			return fmt.Errorf("Local(%q,%q) returned no steps but score %v (%s)", []byte(c.A), []byte(c.B), res.score, matDesc(c.M))
		}
	} else {
		score, na, nb, err := ref.Rescore(res.steps, c.A, c.B, ai, bi, rm)
		if err != nil {
			return fmt.Errorf("%s(%q,%q) steps %s from (%d,%d): %v (%s)", name, []byte(c.A), []byte(c.B), stepString(res.steps), ai, bi, err, matDesc(c.M))
		}
		if !c.Local && (na != len(c.A) || nb != len(c.B)) {
			return fmt.Errorf("Global(%q,%q) steps %s consume (%d,%d) characters, want (%d,%d)", []byte(c.A), []byte(c.B), stepString(res.steps), na, nb, len(c.A), len(c.B))
		}
		if !near(score, res.score, c.M.tol()) {
			return fmt.Errorf("%s(%q,%q) claims score %v but its steps %s from (%d,%d) score %v (%s)", name, []byte(c.A), []byte(c.B), res.score, stepString(res.steps), ai, bi, score, matDesc(c.M))
		}
	}
	if c.Local {
		opt := ref.Optimum(c.A, c.B, rm, true)
		if tol := c.M.tol(); opt <= 0 && (res.score > tol || res.score < -tol || (tol == 0 && len(res.steps) != 0)) {
			return fmt.Errorf("Local(%q,%q): no positive-scoring local alignment exists, but got steps %s score %v (%s)", []byte(c.A), []byte(c.B), stepString(res.steps), res.score, matDesc(c.M))
		}
		o.ClassIf(len(res.steps) == 0, "local empty result")
		o.ClassIf(len(res.steps) > 0 && (res.ai > 0 || res.bi > 0), "local starts >0")
	}
	gaps, runs, longest := gapStats(res.steps)
	o.ClassIf(gaps > 0, "has gap")
	o.ClassIf(longest >= 2, "gap run >=2")
	o.ClassIf(runs >= 2, "two gap runs")
	o.ClassIf(len(c.A) == 0 || len(c.B) == 0, "empty a or b")
	o.ClassIf(!c.M.symmetric(), "asymmetric")
	o.ClassIf(c.M.Named == "" && c.M.Open != 0, "open!=0")
	o.ClassIf(c.M.Named != "", "matrix:"+c.M.Named)
	o.ClassIf(c.Local, "local")
	o.ClassIf(!c.Local, "global")
	return nil
}

func checkC08(c AlignCase, o *Obs) error {
	if c.FirstCall != "" {
		o.NT = true
		o.Class("first call in a fresh process")
		return runFirstCall(c.FirstCall)
	}
	m, rm, err := c.M.build()
	if err != nil {
		return nil // malformed replay file
	}
	// An earlier call that ended in the documented panic (b aligned with itself followed by a
	// character the matrix has no score for: high scores everywhere before the panic in the last
	// row) leaves nothing behind for later calls.
	if len(c.A)+len(c.B) <= 400 {
		if alien, ok := alienByte(m); ok {
			o.Class("after a call that panicked")
			xa, xb := append(bytes.Clone(c.B), alien), bytes.Clone(c.B)
			catch(func() {
				if c.Local {
					align.Local(xa, xb, m)
				} else {
					align.Global(xa, xb, m)
				}
			})
		}
	}
	res, err := runAlign(c, m)
	if err != nil {
		return err
	}
	if err := checkValidity(c, rm, res, o); err != nil {
		return err
	}
	gaps, _, _ := gapStats(res.steps)
	o.NT = gaps > 0 || len(c.A) != len(c.B)
	if c.Light {
		o.Class("table of 2^16..2^21 cells, one call only")
		return nil
	}
	// a further call (arguments swapped) must be valid too and must not disturb the first result
	sw := c
	sw.A, sw.B = c.B, c.A
	resSw, err := runAlign(sw, m)
	if err != nil {
		return err
	}
	if err := checkValidity(sw, rm, resSw, &Obs{}); err != nil {
		return err
	}
	if err := res.stepsUnchanged(); err != nil {
		return err
	}
	// The returned steps belong to the caller: overwriting them (spare capacity included) does
	// not influence a later call on the same sequences.
	{
		raw := res.raw[:cap(res.raw)]
		for i := range raw {
			raw[i] = align.Step(ref.Insertion)
			if i%2 == 1 {
				raw[i] = align.Step(ref.Deletion)
			}
		}
		again, err := runAlign(c, m)
		if err != nil {
			return fmt.Errorf("after the caller overwrote the steps returned by the first call: %v", err)
		}
		if err := checkValidity(c, rm, again, &Obs{}); err != nil {
			return fmt.Errorf("after the caller overwrote the steps returned by the first call: %v", err)
		}
		if !near(again.score, res.score, c.M.tol()) {
			return fmt.Errorf("after the caller overwrote the steps returned by the first call, the same call scores %v instead of %v", again.score, res.score)
		}
	}
	// a sequence aligned with itself, the very same slice passed as both arguments
	if len(c.A) > 0 {
		self := c
		self.B, self.SameSlice = c.A, true
		resSelf, err := runAlign(self, m)
		if err != nil {
			return fmt.Errorf("with one slice passed as both sequences: %v", err)
		}
		if err := checkValidity(self, rm, resSelf, &Obs{}); err != nil {
			return fmt.Errorf("with one slice passed as both sequences: %v", err)
		}
	}
	// The caller keeps the pair in two buffers and refills them in place for the next pair (same
	// slices, same lengths, other contents): first b alone, then a.
	{
		bufA, bufB := bytes.Clone(c.A), bytes.Clone(c.B)
		cur := c
		cur.SameSlice = false
		if _, err := runAlignOn(cur, bufA, bufB, m); err != nil {
			return err
		}
		for step := 0; step < 2; step++ {
			if step == 0 {
				slices.Reverse(bufB)
				cur.B = gen.B(bytes.Clone(bufB))
			} else if len(bufA) > 1 {
				first := bufA[0]
				copy(bufA, bufA[1:])
				bufA[len(bufA)-1] = first
				cur.A = gen.B(bytes.Clone(bufA))
			}
			r2, err := runAlignOn(cur, bufA, bufB, m)
			if err != nil {
				return fmt.Errorf("after the caller refilled its sequence buffers in place (now %q, %q): %v", bufA, bufB, err)
			}
			if err := checkValidity(cur, rm, r2, &Obs{}); err != nil {
				return fmt.Errorf("after the caller refilled its sequence buffers in place (they held %q, %q for the call before): %v", []byte(c.A), []byte(c.B), err)
			}
		}
	}
	if applyMutation(c, m, rm) {
		o.Class("matrix changed in place between calls")
		res2, err := runAlign(c, m)
		if err != nil {
			return fmt.Errorf("after changing a score of the same matrix in place (%+v): %v", *c.Mutate, err)
		}
		if err := checkValidity(c, rm, res2, o); err != nil {
			return fmt.Errorf("after changing a score of the same matrix in place (%+v): %v", *c.Mutate, err)
		}
	}
	return nil
}

// fixedMatrices: small matrices over {a,b} used by the exhaustive stages.
func fixedMatrices(openValues []int, localOK bool) []MatSpec {
	var out []MatSpec
	pairs := [][][]int{
		{{1, -1}, {-1, 1}},   // match/mismatch
		{{2, -3}, {-3, 2}},   // harsher mismatch
		{{1, 0}, {-2, 3}},    // asymmetric
		{{0, 0}, {0, 0}},     // all zero
		{{5, -1}, {-1, 1}},   // unequal diagonal
		{{-1, -2}, {-2, -1}}, // nothing positive
	}
	gaps := [][2][]int{
		{{-1, -1}, {-1, -1}},
		{{-2, -1}, {-1, -3}}, // asymmetric gap scores
		{{0, 0}, {0, 0}},
	}
	if !localOK {
		gaps = append(gaps, [2][]int{{1, -1}, {-1, 2}})
	}
	for _, open := range openValues {
		for pi, p := range pairs {
			for gi, g := range gaps {
				if (pi+gi)%2 == 1 && len(openValues) > 1 && open != openValues[0] {
					continue
				}
				out = append(out, MatSpec{Letters: gen.B("ab"), Pair: p, DelGap: g[0], InsGap: g[1], Open: open})
			}
		}
	}
	// the same scores scaled beyond float32 precision
	for _, open := range openValues {
		out = append(out, MatSpec{Letters: gen.B("ab"), Pair: pairs[0], DelGap: gaps[0][0], InsGap: gaps[0][1], Open: open, Scale: 16777217},
			MatSpec{Letters: gen.B("ab"), Pair: pairs[2], DelGap: gaps[1][0], InsGap: gaps[1][1], Open: open, Scale: 1000003})
	}
	return out
}

func exhaustiveC08(thorough bool, emit func(AlignCase) bool) {
	for _, n := range []string{"Global-Levenshtein", "Local-BLOSUM62", "Global-PAM250"} {
		if !emit(AlignCase{FirstCall: n}) {
			return
		}
	}
	if !realAlignCases([]int{0}, []int{1025}, emit) || !realAlignCases([]int{-2, -6}, nil, emit) {
		return
	}
	if !megaAlignCases([]int{-3, 0}, !thorough, emit) || !levLikeCases(emit) {
		return
	}
	maxLen := 4
	if thorough {
		maxLen = 5
	}
	seqs := allSeqs([]byte("ab"), maxLen)
	for _, local := range []bool{false, true} {
		opens := []int{0, -1, -3}
		if !local {
			opens = append(opens, 2)
		}
		for _, m := range fixedMatrices(opens, local) {
			for _, a := range seqs {
				for _, b := range seqs {
					if !emit(AlignCase{A: a, B: b, M: m, Local: local}) {
						return
					}
				}
			}
		}
	}
}

func keyAlign(c AlignCase) []byte {
	k := []byte(matDesc(c.M))
	k = append(k, c.FirstCall...)
	if c.Local {
		k = append(k, 'L')
	}
	if c.Mutate != nil {
		k = append(k, fmt.Sprintf("~%s%d,%d,%d", c.Mutate.Which, c.Mutate.I, c.Mutate.J, c.Mutate.Delta)...)
	}
	k = append(k, 0)
	k = append(k, c.A...)
	k = append(k, 0xff)
	return append(k, c.B...)
}

func propC08() Prop[AlignCase] {
	return Prop[AlignCase]{ID: "C08", Gen: genC08, Exhaustive: exhaustiveC08, Check: checkC08, Key: keyAlign}
}

func TestC08(t *testing.T) { Run(t, propC08()) }

func FuzzGenC08(f *testing.F) { RunFuzz(f, propC08()) }

func TestRaceC08(t *testing.T) { RunConcurrent(t, propC08(), 4) }

// alienByte returns a byte (not the gap symbol) for which the matrix has no score at all.
func alienByte(m align.SubstitutionMatrix) (byte, bool) {
	used := map[byte]bool{255: true}
	for k := range m {
		used[k[0]], used[k[1]] = true, true
	}
	for _, b := range []byte{'#', 254, 1, '~', 0} {
		if !used[b] {
			return b, true
		}
	}
	return 0, false
}
