package props

// C12: reverse complement is an involution; canonical k-mers are strand-independent.

import (
	"bytes"
	"fmt"
	"iter"
	"slices"
	"testing"

	"github.com/fluhus/biostuff/sequtil"
	"pgregory.net/rapid"
	"verif/harness/internal/gen"
	"verif/harness/internal/ref"
)

type C12Case struct {
	Dst   gen.B `json:"dst"`
	Src   gen.B `json:"src"`
	K     int   `json:"k"`
	Spare int   `json:"spare,omitempty"` // capacity of dst, see sentinelDst
	// FirstCall: the named function is run as the first call into the package in a fresh process
	FirstCall string `json:"first_call,omitempty"`
}

const rcLetters = "aAcCgGtTnN"

func genC12(t *rapid.T, thorough bool) C12Case {
	var c C12Case
	maxLen := 300
	if thorough {
		maxLen = 3000
	}
	alpha := rapid.SampledFrom([]string{rcLetters, "ACGT", "AT", "acgtN", "A"}).Draw(t, "alphabet")
	n := rapid.OneOf(rapid.IntRange(0, 12), rapid.IntRange(0, 60), rapid.IntRange(0, maxLen)).Draw(t, "len")
	c.Src = gen.B(rapid.SliceOfN(rapid.SampledFrom([]byte(alpha)), n, n).Draw(t, "src"))
	if rapid.IntRange(0, 9).Draw(t, "bad") == 0 && n > 0 {
		// Put one byte outside the alphabet somewhere.
		pos := rapid.IntRange(0, n-1).Draw(t, "badpos")
		c.Src[pos] = rapid.Byte().Draw(t, "badbyte")
	}
	c.Dst = gen.B(rapid.SliceOfN(rapid.Byte(), 0, 9).Draw(t, "dst"))
	c.Spare = rapid.IntRange(0, 3).Draw(t, "spare")
	if n > 0 && rapid.IntRange(0, 19).Draw(t, "utf8") == 0 {
		// a valid multi-byte UTF-8 sequence somewhere (e.g. U+0141, whose low byte is 'A')
		r := rapid.SampledFrom([]rune{0x141, 0x143, 0x147, 0x154, 0x14e, 0x161, 0x163, 0x167, 0x174, 0x16e, 0x4e4e, 0x1f443, 0xe9, 0x3b1}).Draw(t, "rune")
		pos := rapid.IntRange(0, n).Draw(t, "runepos")
		c.Src = append(c.Src[:pos:pos], append(gen.B(string(r)), c.Src[pos:]...)...)
	}
	c.K = rapid.OneOf(rapid.IntRange(1, 6), rapid.IntRange(1, max(1, n+2)), rapid.Just(max(1, n))).Draw(t, "k")
	return c
}

func checkC12(c C12Case, o *Obs) (err error) {
	if c.FirstCall != "" {
		o.NT = true
		o.Class("first call in a fresh process")
		return runFirstCall(c.FirstCall)
	}
	// either an exact-capacity slice (nil when empty) or a window with valid bases behind it
	src := window(c.Src, (len(c.Src)+len(c.Dst)+c.K+c.Spare)%2 == 0)
	defer func() {
		if err == nil {
			err = windowIntact(src)
		}
	}()
	warmSequtil(c.Src, o)
	k := c.K
	if k < 1 {
		k = 1
	}
	valid := true
	distinct := map[byte]bool{}
	mixed, hasN := false, false
	for _, b := range src {
		if !ref.IsRCLetter(b) {
			valid = false
		}
		distinct[b] = true
		if b >= 'a' {
			mixed = true
		}
		if b == 'n' || b == 'N' {
			hasN = true
		}
	}
	o.NT = valid && len(src) >= 2 && len(distinct) >= 2
	o.ClassIf(!valid, "invalid byte")
	o.ClassIf(mixed, "lower/mixed case")
	o.ClassIf(hasN, "has n/N")
	o.ClassIf(len(c.Dst) > 0, "non-empty dst")
	o.ClassIf(k == len(src), "k==len")
	o.ClassIf(k > len(src), "k>len")
	o.ClassIf(len(src) == 0, "empty")

	srcCopy := bytes.Clone(src)
	// dst with spare capacity filled with sentinels, so that a write through the wrong slice shows.
	buf := sentinelDst(c.Dst, len(src), c.Spare)

	if !valid {
		if p := catch(func() { sequtil.ReverseComplement(buf, src) }); p == nil {
			return fmt.Errorf("ReverseComplement(%q) did not panic on a byte outside aAcCgGtTnN", src)
		}
		if p := catch(func() { _ = sequtil.ReverseComplementString(string(src)) }); p == nil {
			return fmt.Errorf("ReverseComplementString(%q) did not panic on a byte outside aAcCgGtTnN", src)
		}
		if !bytes.Equal(src, srcCopy) {
			return fmt.Errorf("src modified by a panicking call")
		}
		return nil
	}

	want := ref.RevComp(src)
	var got []byte
	if p := catch(func() { got = sequtil.ReverseComplement(buf, src) }); p != nil {
		return fmt.Errorf("ReverseComplement(%q) panicked: %v", src, p)
	}
	if !bytes.Equal(src, srcCopy) {
		return fmt.Errorf("ReverseComplement modified src: %q -> %q", srcCopy, src)
	}
	if !bytes.Equal(buf[:len(c.Dst)], c.Dst) {
		return fmt.Errorf("ReverseComplement modified the existing content of dst: %q -> %q", []byte(c.Dst), buf[:len(c.Dst)])
	}
	if len(got) != len(c.Dst)+len(src) || !bytes.Equal(got[:len(c.Dst)], c.Dst) || !bytes.Equal(got[len(c.Dst):], want) {
		return fmt.Errorf("ReverseComplement(dst=%q, %q) = %q, want dst followed by %q", []byte(c.Dst), src, got, want)
	}
	// dst and src are the same slice (append a sequence's own reverse complement to it, as in
	// s = append(s, s...)): the written region lies behind src, so nothing that is still to be
	// read is overwritten, with and without room to spare
	if len(src) > 0 {
		for _, room := range []int{0, 2 * len(src)} {
			self := make([]byte, len(src), len(src)+room)
			copy(self, src)
			var both []byte
			if p := catch(func() { both = sequtil.ReverseComplement(self, self) }); p != nil {
				return fmt.Errorf("ReverseComplement(s, s) with s=%q (spare capacity %d) panicked: %v", src, room, p)
			}
			if !bytes.Equal(self, src) {
				return fmt.Errorf("ReverseComplement(s, s) modified s: %q -> %q", src, self)
			}
			if len(both) != 2*len(src) || !bytes.Equal(both[:len(src)], src) || !bytes.Equal(both[len(src):], want) {
				return fmt.Errorf("ReverseComplement(s, s) with s=%q (spare capacity %d) = %q, want s followed by %q", src, room, both, want)
			}
		}
	}
	// the result belongs to the caller: scribbling on it must not influence later calls
	resultCopy := bytes.Clone(got)
	for i := range got {
		got[i] ^= 0x5a
	}
	if again := sequtil.ReverseComplement(nil, src); !bytes.Equal(again, want) {
		return fmt.Errorf("after the caller modified an earlier result, ReverseComplement(%q) = %q, want %q", src, again, want)
	}
	got = resultCopy
	back := sequtil.ReverseComplement(nil, got[len(c.Dst):])
	if !bytes.Equal(back, src) {
		return fmt.Errorf("applying ReverseComplement twice to %q gives %q", src, back)
	}
	var gs string
	if p := catch(func() { gs = sequtil.ReverseComplementString(string(src)) }); p != nil {
		return fmt.Errorf("ReverseComplementString(%q) panicked: %v", src, p)
	}
	if gs != string(want) {
		return fmt.Errorf("ReverseComplementString(%q) = %q, want %q", src, gs, want)
	}

	// Canonical subsequences.
	collect := func(s []byte) ([][]byte, error) {
		var items, kept [][]byte
		var perr any
		perr = catch(func() {
			for x := range sequtil.CanonicalSubsequences(s, k) {
				items = append(items, bytes.Clone(x))
				kept = append(kept, x) // the item itself, not a copy
				if len(items) > len(s)+2 {
					break
				}
			}
		})
		if perr != nil {
			return nil, fmt.Errorf("CanonicalSubsequences(%q,%d) panicked: %v", s, k, perr)
		}
		// Nothing says that an item is only valid until the next one is yielded: items kept by
		// the consumer still hold their k-mers after the loop.
		for i := range kept {
			if !bytes.Equal(kept[i], items[i]) {
				return nil, fmt.Errorf("CanonicalSubsequences(%q,%d): item %d was %q when yielded but reads %q after the loop (items share storage)", s, k, i, items[i], kept[i])
			}
		}
		return items, nil
	}
	items, err := collect(src)
	if err != nil {
		return err
	}
	if !bytes.Equal(src, srcCopy) {
		return fmt.Errorf("CanonicalSubsequences modified its input")
	}
	wantN := max(0, len(src)-k+1)
	if len(items) != wantN {
		return fmt.Errorf("CanonicalSubsequences(%q,%d) yields %d items, want %d", src, k, len(items), wantN)
	}
	palin := false
	for i, it := range items {
		w := ref.Canonical(src[i : i+k])
		if !bytes.Equal(it, w) {
			return fmt.Errorf("CanonicalSubsequences(%q,%d) item %d = %q, want %q", src, k, i, it, w)
		}
		if bytes.Equal(ref.RevComp(src[i:i+k]), src[i:i+k]) {
			palin = true
		}
	}
	o.ClassIf(palin, "palindromic k-mer")
	// items of the first iteration kept as yielded (not copied) must survive later iterations
	var keptFirst [][]byte
	if p := catch(func() {
		for x := range sequtil.CanonicalSubsequences(src, k) {
			keptFirst = append(keptFirst, x)
			if len(keptFirst) > len(src)+2 {
				break
			}
		}
	}); p != nil {
		return fmt.Errorf("CanonicalSubsequences(%q,%d) panicked on a further pass: %v", src, k, p)
	}
	ritems, err := collect(want)
	if err != nil {
		return err
	}
	for i := range keptFirst {
		if i >= len(items) || !bytes.Equal(keptFirst[i], items[i]) {
			return fmt.Errorf("CanonicalSubsequences(%q,%d): item %d, kept by the consumer as yielded, reads %q after CanonicalSubsequences ran over another sequence (%q); it was %q", src, k, i, keptFirst[i], want, items[min(i, len(items)-1)])
		}
	}
	// The value returned by CanonicalSubsequences stands for the sequence: ranging over it
	// again, also after an abandoned pass, yields the items again.
	{
		it := sequtil.CanonicalSubsequences(src, k)
		for pass := 0; pass < 3; pass++ {
			n := 0
			var bad error
			if p := catch(func() {
				for x := range it {
					if n >= len(items) || !bytes.Equal(x, items[n]) {
						bad = fmt.Errorf("pass %d over the same iterator value of CanonicalSubsequences(%q,%d): item %d is %q", pass, src, k, n, x)
						return
					}
					n++
					if pass == 1 && n == len(items)/2+1 {
						return // abandon this pass
					}
				}
			}); p != nil {
				return fmt.Errorf("pass %d over the same iterator value of CanonicalSubsequences(%q,%d) panicked: %v", pass, src, k, p)
			}
			if bad != nil {
				return bad
			}
			if pass != 1 && n != len(items) {
				return fmt.Errorf("pass %d over the same iterator value of CanonicalSubsequences(%q,%d) yields %d items, want %d", pass, src, k, n, len(items))
			}
		}
	}
	// The caller refills the sequence buffer in place (next record, same length) between two
	// passes over one iterator value. The value either stands for the buffer (the later pass
	// yields the items of the new content) or for the content at the time of the call (the old
	// items again) - but not for a mixture of the two.
	if len(items) >= 1 {
		it := sequtil.CanonicalSubsequences(src, k)
		n := 0
		for range it {
			n++
			if n > len(items) {
				break
			}
		}
		for i, b := range src {
			src[i] = ref.RevComp([]byte{b})[0] // another valid sequence, case kept
		}
		var wantNew [][]byte
		for i := 0; i+k <= len(src); i++ {
			wantNew = append(wantNew, bytes.Clone(ref.Canonical(src[i:i+k])))
		}
		var got [][]byte
		p := catch(func() {
			for x := range it {
				got = append(got, bytes.Clone(x))
				if len(got) > len(items)+2 {
					break
				}
			}
		})
		copy(src, srcCopy)
		if p != nil {
			return fmt.Errorf("second pass over one iterator value of CanonicalSubsequences(%q,%d) after the buffer was refilled panicked: %v", src, k, p)
		}
		same := func(a, b [][]byte) bool {
			if len(a) != len(b) {
				return false
			}
			for i := range a {
				if !bytes.Equal(a[i], b[i]) {
					return false
				}
			}
			return true
		}
		if !same(got, wantNew) && !same(got, items) {
			return fmt.Errorf("CanonicalSubsequences(%q,%d): after the caller replaced every base by its complement in place, a second pass over the same iterator value yields %q - neither the items of the new content %q nor those of the old %q", src, k, got, wantNew, items)
		}
	}
	// Two iterations in progress at the same time (one over src, one over its reverse
	// complement, advanced in turn, the second one item behind): each yields its own items,
	// and the items of one are not disturbed by the other.
	if len(items) >= 2 {
		o.Class("interleaved iterations")
		var gotA, gotB, keptA, keptB [][]byte
		if p := catch(func() {
			nextA, stopA := iter.Pull(sequtil.CanonicalSubsequences(src, k))
			defer stopA()
			nextB, stopB := iter.Pull(sequtil.CanonicalSubsequences(want, k))
			defer stopB()
			doneA, doneB := false, false
			for round := 0; !(doneA && doneB) && round <= len(src)+2; round++ {
				if !doneA {
					if x, ok := nextA(); ok {
						gotA, keptA = append(gotA, bytes.Clone(x)), append(keptA, x)
					} else {
						doneA = true
					}
				}
				if !doneB && round >= 1 {
					if x, ok := nextB(); ok {
						gotB, keptB = append(gotB, bytes.Clone(x)), append(keptB, x)
					} else {
						doneB = true
					}
				}
			}
		}); p != nil {
			return fmt.Errorf("two interleaved iterations of CanonicalSubsequences (over %q and its reverse complement, k=%d) panicked: %v", src, k, p)
		}
		for _, pair := range []struct {
			name      string
			got, kept [][]byte
			want      [][]byte
		}{{"first", gotA, keptA, items}, {"second", gotB, keptB, ritems}} {
			if len(pair.got) != len(pair.want) {
				return fmt.Errorf("two interleaved iterations of CanonicalSubsequences (over %q and its reverse complement, k=%d): the %s yields %d items, alone it yields %d", src, k, pair.name, len(pair.got), len(pair.want))
			}
			for i := range pair.want {
				if !bytes.Equal(pair.got[i], pair.want[i]) {
					return fmt.Errorf("two interleaved iterations of CanonicalSubsequences (over %q and its reverse complement, k=%d): item %d of the %s is %q, alone it is %q", src, k, i, pair.name, pair.got[i], pair.want[i])
				}
				if !bytes.Equal(pair.kept[i], pair.want[i]) {
					return fmt.Errorf("two interleaved iterations of CanonicalSubsequences (over %q and its reverse complement, k=%d): item %d of the %s was %q when yielded and reads %q afterwards", src, k, i, pair.name, pair.want[i], pair.kept[i])
				}
			}
		}
	}
	// An iterator obtained before the sequence buffer is refilled: whatever it iterates over
	// (the content at call time or at range time), it must be one of the two, consistently.
	if len(src) >= k && len(src) > 0 {
		buf := bytes.Clone(src)
		it := sequtil.CanonicalSubsequences(buf, k)
		copy(buf, want) // refill the buffer with another valid sequence (the reverse complement)
		var live [][]byte
		if p := catch(func() {
			for x := range it {
				live = append(live, bytes.Clone(x))
				if len(live) > len(src)+2 {
					break
				}
			}
		}); p != nil {
			return fmt.Errorf("CanonicalSubsequences(%q,%d) ranged after the buffer was refilled panicked: %v", src, k, p)
		}
		same := func(a, b [][]byte) bool {
			if len(a) != len(b) {
				return false
			}
			for i := range a {
				if !bytes.Equal(a[i], b[i]) {
					return false
				}
			}
			return true
		}
		if !same(live, items) && !same(live, ritems) {
			return fmt.Errorf("CanonicalSubsequences(%q,%d) created before the buffer was refilled with %q yields %q: neither the canonical k-mers of the old content %q nor of the new content %q", src, k, want, live, items, ritems)
		}
	}
	// A read buffer that is refilled in place between two complete passes (same length, other
	// content): the second pass is about the new content.
	if len(src) >= k && len(src) > 0 {
		buf := bytes.Clone(src)
		if _, err := collectOf(buf, k); err != nil {
			return err
		}
		other := bytes.Clone(src)
		slices.Reverse(other) // another valid sequence of the same length
		copy(buf, other)
		got, err := collectOf(buf, k)
		if err != nil {
			return err
		}
		for i := range got {
			if w := ref.Canonical(other[i : i+k]); !bytes.Equal(got[i], w) {
				return fmt.Errorf("CanonicalSubsequences over a buffer that held %q on an earlier complete pass and now holds %q (k=%d): item %d = %q, want %q", src, other, k, i, got[i], w)
			}
		}
		if len(got) != len(other)-k+1 {
			return fmt.Errorf("CanonicalSubsequences over a refilled buffer yields %d items, want %d", len(got), len(other)-k+1)
		}
	}
	if len(ritems) != len(items) {
		return fmt.Errorf("reverse complement of %q yields %d canonical %d-mers, the sequence itself %d", src, len(ritems), k, len(items))
	}
	for i := range items {
		if !bytes.Equal(items[i], ritems[len(items)-1-i]) {
			return fmt.Errorf("canonical %d-mers of %q and of its reverse complement differ at %d: %q vs %q", k, src, i, items[i], ritems[len(items)-1-i])
		}
	}
	return nil
}

func exhaustiveC12(thorough bool, emit func(C12Case) bool) {
	if !emit(C12Case{FirstCall: "ReverseComplement"}) {
		return
	}
	if !emit(C12Case{FirstCall: "ReverseComplementString"}) {
		return
	}
	if !emit(C12Case{FirstCall: "CanonicalSubsequences"}) {
		return
	}
	if !emit(C12Case{FirstCall: "ReverseComplement-panics"}) {
		return
	}
	// Real-data-shaped sequences (homopolymers, microsatellites, N gaps that change case inside
	// the gap, soft-masked stretches) of every length up to 300 and on the size ladder.
	for n := 1; n <= 300; n++ {
		if !emit(C12Case{Src: realDNA(n, n, true, true), K: 1 + n%7, Spare: n % 4}) {
			return
		}
	}
	for i, n := range sizeLadderLinear {
		if !emit(C12Case{Src: realDNA(n, i, true, true), K: []int{3, 21, 31}[i%3], Dst: gen.B("x"), Spare: i % 4}) {
			return
		}
		// the same with one foreign byte (the panic must come whatever block the byte is in), each
		// followed by a valid call of the same size
		if n >= 4095 {
			for j, pos := range foreignPositions(n) {
				bad := realDNA(n, i, true, true)
				bad[pos] = "x\x00U-\xff@"[j%6]
				if !emit(C12Case{Src: bad, K: n + 1}) || !emit(C12Case{Src: realDNA(n, i+j+1, true, false), K: n + 1}) {
					return
				}
			}
		}
	}
	// megabase sequences (beyond any threshold for working in pieces or in parallel): valid, and
	// with one, two and three foreign bytes far apart - the panic must reach the caller (a call
	// that neither returns nor panics is reported by the watchdog)
	for _, n := range []int{1<<20 + 3, 1<<21 + 1} {
		mb := realDNA(n, 9, true, true)
		if !emit(C12Case{Src: mb, K: n + 1}) {
			return
		}
		for _, positions := range [][]int{{n / 2}, {1000, 1000 + 1<<20}, {0, n / 2, n - 1}, {1<<18 - 1, 1 << 18, 3 << 18}} {
			bad := bytes.Clone(mb)
			for _, pos := range positions {
				pos = min(pos, n-2)
				bad[pos] = "U@x-"[pos%4]
			}
			if !emit(C12Case{Src: bad, K: n + 1}) {
				return
			}
		}
	}
	// Every byte value alone and embedded at each position of a fixed sequence.
	base := []byte("ACgtN")
	for b := 0; b < 256; b++ {
		if !emit(C12Case{Src: gen.B{byte(b)}, K: 1}) {
			return
		}
		for pos := 0; pos <= len(base); pos++ {
			s := append(append(append([]byte{}, base[:pos]...), byte(b)), base[pos:]...)
			if !emit(C12Case{Src: s, K: 2, Dst: gen.B("x")}) {
				return
			}
		}
	}
	// Every byte value at every position of runs of one base and of a mixed sequence, 8, 16 and 17
	// bases long (a word-at-a-time implementation sees whole words here, and a foreign byte next
	// to each base: 'U' after 'T', '@' after 'A', 'B' after 'C' ...).
	for _, pat := range []string{"A", "C", "G", "T", "a", "c", "g", "t", "ACGTTGCAacgttgcaG"} {
		for _, n := range []int{8, 16, 17} {
			ctx := bytes.Repeat([]byte(pat), 17)[:n]
			for pos := 0; pos < n; pos++ {
				for b := 0; b < 256; b++ {
					if b == int(ctx[pos]) {
						continue
					}
					s := bytes.Clone(ctx)
					s[pos] = byte(b)
					if !emit(C12Case{Src: s, K: 3, Spare: (pos + b) % 4}) {
						return
					}
				}
			}
		}
	}
	// Every two-byte string (includes every valid two-byte UTF-8 sequence), alone and embedded.
	for a := 0; a < 256; a++ {
		for b := 0; b < 256; b++ {
			if !emit(C12Case{Src: gen.B{byte(a), byte(b)}, K: 1, Spare: (a + b) % 4, Dst: gen.B{0, 'x', 0}}) || !emit(C12Case{Src: gen.B{'A', byte(a), byte(b), 'c'}, K: 2}) {
				return
			}
		}
	}
	// three- and four-byte UTF-8 sequences whose code point has a nucleotide letter as low byte
	for _, r := range []rune{0x4e41, 0x4e4e, 0x1f443, 0x1f441, 0x10143, 0x2047, 0x2054, 0xfb61} {
		for _, ctx := range []string{"", "AC"} {
			if !emit(C12Case{Src: gen.B(ctx + string(r) + ctx), K: 1}) {
				return
			}
		}
	}
	// All sequences up to a length bound over the ten letters, all k in 1..len+1.
	maxLen := 5
	if thorough {
		maxLen = 6
	}
	var rec func(prefix []byte) bool
	rec = func(prefix []byte) bool {
		for k := 1; k <= len(prefix)+1; k++ {
			var dst gen.B
			if k%2 == 0 {
				dst = gen.B("z\x00z")
			}
			if !emit(C12Case{Src: bytes.Clone(prefix), K: k, Dst: dst, Spare: (k + len(prefix)) % 4}) {
				return false
			}
		}
		if len(prefix) == maxLen {
			return true
		}
		for i := 0; i < len(rcLetters); i++ {
			if !rec(append(prefix, rcLetters[i])) {
				return false
			}
		}
		return true
	}
	rec(nil)
}

func keyC12(c C12Case) []byte {
	k := make([]byte, 0, len(c.Src)+len(c.Dst)+4)
	k = append(k, byte(c.K), byte(c.K>>8), byte(len(c.Dst)), byte(c.Spare))
	k = append(k, c.FirstCall...)
	k = append(k, c.Dst...)
	k = append(k, 0)
	return append(k, c.Src...)
}

func propC12() Prop[C12Case] {
	big := func(c C12Case) bool { return len(c.Src) >= 1<<20 }
	return Prop[C12Case]{ID: "C12", Gen: genC12, Exhaustive: exhaustiveC12, Check: checkC12, Key: keyC12, Risky: big, MustTerminate: big}
}

func TestC12(t *testing.T) { Run(t, propC12()) }

func FuzzGenC12(f *testing.F) { RunFuzz(f, propC12()) }

func TestRaceC12(t *testing.T) { RunConcurrent(t, propC12(), 4) }

// collectOf returns copies of the items of CanonicalSubsequences(s, k).
func collectOf(s []byte, k int) (items [][]byte, err error) {
	if p := catch(func() {
		for x := range sequtil.CanonicalSubsequences(s, k) {
			items = append(items, bytes.Clone(x))
			if len(items) > len(s)+2 {
				break
			}
		}
	}); p != nil {
		return nil, fmt.Errorf("CanonicalSubsequences(%q,%d) panicked: %v", s, k, p)
	}
	return items, nil
}
