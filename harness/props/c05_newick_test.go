package props

// C05: Newick trees survive write -> read, including names that need quoting.

import (
	"bytes"
	"encoding/json"
	"fmt"
	"math"
	"strings"
	"testing"

	"github.com/fluhus/biostuff/formats/newick"
	"pgregory.net/rapid"
	"verif/harness/internal/gen"
)

type C05Case struct {
	Trees []gen.TreeSpec `json:"trees"`
	Sep   string         `json:"sep"` // written between (and after) trees: "", "\n", "\r\n", " ", "\t"
}

// hostile Newick symbols, each a candidate name character
var newickSymbols = [][]byte{[]byte("a"), []byte("b"), []byte("0"), []byte(" "), []byte("_"), []byte("'"), []byte("("), []byte(")"),
	[]byte(","), []byte(":"), []byte(";"), []byte("\t"), []byte("\n"), []byte("\r"), []byte("["), []byte("]"), []byte("\""),
	{0x80}, []byte("é")}

func genNewickName(t *rapid.T) gen.B {
	switch rapid.IntRange(0, 5).Draw(t, "namekind") {
	case 0:
		return nil
	case 1:
		return gen.Word(1, 5).Draw(t, "plain")
	case 2:
		return gen.B(rapid.SliceOfN(rapid.Byte(), 0, 5).Draw(t, "raw"))
	case 3:
		if rapid.IntRange(0, 9).Draw(t, "long") == 0 {
			return gen.Alphabet{Hostile: []byte(" _'(),:;\t\n"), Exclude: nil}.Field(6, 100, 9000).Draw(t, "longname")
		}
	}
	n := rapid.IntRange(0, 6).Draw(t, "nsym")
	var out []byte
	for i := 0; i < n; i++ {
		out = append(out, rapid.SampledFrom(newickSymbols).Draw(t, "sym")...)
	}
	return gen.B(out)
}

func genNewickTree(t *rapid.T, maxNodes int, deep []int) gen.TreeSpec {
	var s gen.TreeSpec
	isDeep := false
	if len(deep) > 0 && rapid.IntRange(0, 29).Draw(t, "deep") == 0 {
		isDeep = true
		s = gen.TreeSpec{Shape: rapid.SampledFrom([]string{"chain", "broom", "caterpillar"}).Draw(t, "shape"),
			N: rapid.SampledFrom(deep).Draw(t, "depth"), Fan: rapid.IntRange(0, 4).Draw(t, "fan")}
	} else {
		s = genTreeShape(t, maxNodes)
	}
	nn := rapid.SampledFrom([]int{0, 1, 2, 3, 5, 8}).Draw(t, "nnames")
	for i := 0; i < nn; i++ {
		s.Names = append(s.Names, genNewickName(t))
	}
	nd := rapid.SampledFrom([]int{0, 1, 2, 3, 5}).Draw(t, "ndists")
	for i := 0; i < nd; i++ {
		if rapid.Bool().Draw(t, "zero") {
			s.Dists = append(s.Dists, 0)
		} else if isDeep {
			// extreme floats take strconv's slow path; keep 10^4..10^6 of them cheap
			s.Dists = append(s.Dists, gen.F(float64(rapid.IntRange(-1000, 1000).Draw(t, "dist"))/8))
		} else {
			s.Dists = append(s.Dists, gen.F(gen.Floats().Draw(t, "dist")))
		}
	}
	return s
}

func genC05(t *rapid.T, thorough bool) C05Case {
	maxNodes := 200
	deep := []int{1000, 10000}
	if thorough {
		maxNodes = 2000
		deep = []int{1000, 10000, 100000}
	}
	var c C05Case
	n := rapid.SampledFrom([]int{1, 1, 1, 2, 3, 5}).Draw(t, "ntrees")
	for i := 0; i < n; i++ {
		c.Trees = append(c.Trees, genNewickTree(t, maxNodes, deep))
	}
	c.Sep = rapid.SampledFrom([]string{"", "\n", "\r\n", " ", "\t", "\n\n"}).Draw(t, "sep")
	return c
}

// sameTree compares shape, names and distances iteratively (trees may be very deep).
func sameTree(got, want *newick.Node) error {
	type pair struct{ g, w *newick.Node }
	stack := []pair{{got, want}}
	visited := 0
	for len(stack) > 0 {
		p := stack[len(stack)-1]
		stack = stack[:len(stack)-1]
		visited++
		if p.g == nil {
			return fmt.Errorf("nil node")
		}
		if p.g.Name != p.w.Name {
			return fmt.Errorf("node %d (in a pre-order of the written tree, last child first): name %q, want %q", visited, p.g.Name, p.w.Name)
		}
		if !gen.SameFloat(p.g.Distance, p.w.Distance) {
			return fmt.Errorf("node %q: distance %v, want %v", p.w.Name, p.g.Distance, p.w.Distance)
		}
		if len(p.g.Children) != len(p.w.Children) {
			return fmt.Errorf("node %q: %d children, want %d", p.w.Name, len(p.g.Children), len(p.w.Children))
		}
		for i := range p.w.Children {
			stack = append(stack, pair{p.g.Children[i], p.w.Children[i]})
		}
	}
	return nil
}

// condensed scans the text with an independent quote-tracking scanner and reports
// whitespace outside quoted names.
func condensed(text []byte) error {
	inQuote := false
	for i := 0; i < len(text); i++ {
		b := text[i]
		if inQuote {
			if b == '\'' {
				if i+1 < len(text) && text[i+1] == '\'' {
					i++ // doubled quote inside a quoted name
					continue
				}
				inQuote = false
			}
			continue
		}
		switch b {
		case '\'':
			inQuote = true
		case ' ', '\t', '\n', '\r':
			return fmt.Errorf("whitespace %q outside a quoted name at offset %d", b, i)
		}
	}
	if inQuote {
		return fmt.Errorf("unterminated quoted name")
	}
	return nil
}

type nwItem struct {
	n   *newick.Node
	err error
}

func readNewickItems(data []byte, limit int) ([]nwItem, error) {
	var items []nwItem
	if p := catch(func() {
		for n, err := range newick.Reader(bytes.NewReader(data)) {
			items = append(items, nwItem{n, err})
			if len(items) > limit {
				break
			}
		}
	}); p != nil {
		return nil, fmt.Errorf("newick.Reader panicked: %v", p)
	}
	if len(items) > limit {
		return nil, fmt.Errorf("newick.Reader yields more than %d items", limit)
	}
	return items, nil
}

func writeNewick(root *newick.Node) ([]byte, error) {
	var w bytes.Buffer
	var werr error
	if p := catch(func() { werr = root.Write(&w) }); p != nil || werr != nil {
		return nil, fmt.Errorf("Write failed: panic=%v err=%v", p, werr)
	}
	if err := samePlain(root.Write, w.Bytes()); err != nil {
		return nil, err
	}
	if err := writeAfterFailure(root.Write, w.Bytes()); err != nil {
		return nil, err
	}
	var mt []byte
	var merr error
	if p := catch(func() { mt, merr = root.MarshalText() }); p != nil || merr != nil {
		return nil, fmt.Errorf("MarshalText failed: panic=%v err=%v", p, merr)
	}
	if !bytes.Equal(mt, w.Bytes()) {
		return nil, fmt.Errorf("MarshalText %s differs from Write %s", gen.Abbrev(mt), gen.Abbrev(w.Bytes()))
	}
	return mt, nil
}

func checkC05(c C05Case, o *Obs) error {
	// earlier readers in this process that stopped on a syntax error leave nothing behind
	// (one per case, so that whatever it leaves is met by this case's first real read)
	{
		bads := []string{"(a:1.2.3,b);", "a b;", "(a,b));(", "'x", "(a:1e,b)c;x", "a:b;"}
		js, _ := json.Marshal(c)
		for _, rerr := range newick.Reader(strings.NewReader(bads[len(js)%len(bads)])) {
			if rerr != nil {
				break
			}
		}
	}
	if len(c.Trees) == 0 {
		return nil
	}
	for _, b := range []byte(c.Sep) {
		if b != ' ' && b != '\t' && b != '\n' && b != '\r' {
			return nil
		}
	}
	var file bytes.Buffer
	var keeper marshalKeeper
	roots := make([]*newick.Node, len(c.Trees))
	o.NT = len(c.Trees) >= 2
	for i, ts := range c.Trees {
		root, nodes := buildTree(ts)
		roots[i] = root
		snap := snapshot(nodes)
		needQuote, nonZero := false, false
		limit := min(len(nodes), 20000)
		for k := 0; k < limit; k++ {
			nm := nodes[k].Name
			if bytes.ContainsAny([]byte(nm), "(),:;'_\t\n\r ") {
				needQuote = true
			}
			o.ClassIf(bytes.ContainsAny([]byte(nm), "'"), "name with '")
			o.ClassIf(bytes.ContainsAny([]byte(nm), "\n\r"), "name with LF/CR")
			o.ClassIf(bytes.ContainsAny([]byte(nm), "_"), "name with _")
			o.ClassIf(bytes.ContainsAny([]byte(nm), " "), "name with space")
			d := nodes[k].Distance
			if d != 0 {
				nonZero = true
			}
			o.ClassIf(math.IsNaN(d), "NaN distance")
			o.ClassIf(math.IsInf(d, 0), "Inf distance")
			o.ClassIf(d != 0 && (math.Abs(d) >= 1e21 || math.Abs(d) < 1e-4), "exponent distance")
		}
		depth, _ := treeDepthAndFan(ts.ParentArray())
		o.ClassIf(depth >= 1000, "depth>=1000")
		if len(nodes) >= 3 && (needQuote || nonZero) {
			o.NT = true
		}
		text, err := writeNewick(root)
		if err != nil {
			return fmt.Errorf("tree %d: %v", i, err)
		}
		if err := sameSnapshot(nodes, snap); err != nil {
			return fmt.Errorf("tree %d: writer: %v", i, err)
		}
		if len(text) == 0 || text[len(text)-1] != ';' {
			return fmt.Errorf("tree %d: written form %s does not end with ';'", i, gen.Abbrev(text))
		}
		if err := condensed(text); err != nil {
			return fmt.Errorf("tree %d: written form %s is not condensed: %v", i, gen.Abbrev(text), err)
		}
		items, err := readNewickItems(text, 3)
		if err != nil {
			return err
		}
		if len(items) != 1 || items[0].err != nil {
			return fmt.Errorf("tree %d: text %s read back as %d items (error %v)", i, gen.Abbrev(text), len(items), firstNwErr(items))
		}
		if err := sameTree(items[0].n, root); err != nil {
			return fmt.Errorf("tree %d: text %s read back differently: %v", i, gen.Abbrev(text), err)
		}
		file.Write(text)
		file.WriteString(c.Sep)
		keeper.keep(fmt.Sprintf("tree %d", i), text)
	}
	(&newick.Node{Name: "another tree", Children: []*newick.Node{{Name: "x", Distance: 2.5}, {Name: "y"}}}).MarshalText()
	if err := keeper.verify(); err != nil {
		return err
	}
	o.ClassIf(len(c.Trees) >= 2 && c.Sep == "", "multi-tree no separator")
	o.ClassIf(len(c.Trees) >= 2, "multi-tree")
	if len(c.Trees) >= 2 {
		items, err := readNewickItems(file.Bytes(), len(c.Trees)+3)
		if err != nil {
			return err
		}
		if len(items) != len(c.Trees) {
			return fmt.Errorf("%d trees joined by %q read back as %d items (error %v): %s", len(c.Trees), c.Sep, len(items), firstNwErr(items), gen.Abbrev(file.Bytes()))
		}
		for i, it := range items {
			if it.err != nil {
				return fmt.Errorf("tree sequence item %d: error %v", i, it.err)
			}
			if err := sameTree(it.n, roots[i]); err != nil {
				return fmt.Errorf("tree sequence item %d: %v", i, err)
			}
		}
	}
	return nil
}

func firstNwErr(items []nwItem) error {
	for _, it := range items {
		if it.err != nil {
			return it.err
		}
	}
	return nil
}

func exhaustiveC05(thorough bool, emit func(C05Case) bool) {
	maxN := 7
	if thorough {
		maxN = 8
	}
	plain := []gen.B{gen.B("n0"), gen.B("n1"), gen.B("n2"), gen.B("n3"), gen.B("n4"), gen.B("n5"), gen.B("n6"), gen.B("n7"), gen.B("n8")}
	hostile := []gen.B{gen.B("a b"), gen.B("'"), gen.B("(x,y)"), gen.B("a_b"), gen.B(":;"), gen.B("l\nf"), gen.B("\t"), gen.B("''"), gen.B(" "), gen.B("c\rr")}
	dists := []gen.F{0, 1.5, -2, 0, gen.F(math.NaN()), 1e-7}
	for n := 1; n <= maxN; n++ {
		ok := gen.AllShapes(n, func(p []int) bool {
			return emit(C05Case{Trees: []gen.TreeSpec{{Parents: p}}}) &&
				emit(C05Case{Trees: []gen.TreeSpec{{Parents: p, Names: plain, Dists: dists}}}) &&
				emit(C05Case{Trees: []gen.TreeSpec{{Parents: p, Names: hostile, Dists: dists[:3]}, {Parents: p, Names: hostile[3:]}}})
		})
		if !ok {
			return
		}
	}
	// every 1- and 2-symbol name over the hostile alphabet at each position of a 3-node tree
	var names []gen.B
	for _, a := range newickSymbols {
		names = append(names, gen.B(a))
		for _, b := range newickSymbols {
			names = append(names, append(append(gen.B{}, a...), b...))
		}
	}
	for _, nm := range names {
		for pos := 0; pos < 3; pos++ {
			ns := []gen.B{gen.B("r"), gen.B("x"), gen.B("y")}
			ns[pos] = nm
			for _, shape := range [][]int{{0, 0}, {0, 1}} {
				if !emit(C05Case{Trees: []gen.TreeSpec{{Parents: shape, Names: ns, Dists: []gen.F{0, 2.5}}}}) {
					return
				}
			}
		}
	}
	// every single byte as a name
	for b := 0; b < 256; b++ {
		if !emit(C05Case{Trees: []gen.TreeSpec{{Parents: []int{0, 0}, Names: []gen.B{{byte(b)}, {'k', byte(b)}, {byte(b), 'k'}}}}}) {
			return
		}
	}
	// very long names, quoted and unquoted (beyond bufio's 4096-byte buffer and beyond 64 KiB)
	for _, n := range []int{4090, 4095, 4096, 4097, 4100, 8192, 70000, 1<<21 + 3} {
		plainName := gen.B(bytes.Repeat([]byte("x"), n))
		quotedName := gen.B(bytes.Repeat([]byte("y z"), n/3+1)[:n])
		mixed := append(gen.B("(a'b):"), bytes.Repeat([]byte("q"), n)...)
		if !emit(C05Case{Trees: []gen.TreeSpec{{Parents: []int{0, 0}, Names: []gen.B{plainName, quotedName, mixed}, Dists: []gen.F{1}}, {Names: []gen.B{gen.B("after")}}}, Sep: "\n"}) {
			return
		}
	}
	// multi-byte tokens at the start and inside of names, first and later trees
	// a delimiter next to every other byte, inside and across machine words of a name
	if !bytePairFields("'(),:;_ []\"&", "", func(v gen.B) bool {
		return emit(C05Case{Trees: []gen.TreeSpec{{Parents: []int{0, 0}, Names: []gen.B{gen.B("r"), v, gen.B("k")}, Dists: []gen.F{0, 1.5}}}})
	}) {
		return
	}
	// branch lengths at the limits of the integer and single-precision types, and their neighbours
	// in float64: a writer that special-cases whole numbers, small numbers or float32 values must
	// still write every one of them so that it reads back
	{
		var ds []float64
		for _, e := range []int{7, 8, 15, 16, 24, 31, 32, 52, 53, 54, 62, 63, 64, 65, 127, 128} {
			v := math.Ldexp(1, e)
			ds = append(ds, v, -v, v-1, v+1, math.Nextafter(v, 0), math.Nextafter(v, math.Inf(1)), -math.Nextafter(v, 0))
		}
		ds = append(ds, float64(math.MaxInt64), float64(math.MinInt64), float64(math.MaxInt32), float64(math.MinInt32), float64(math.MaxUint32),
			float64(float32(0.1)), float64(float32(1)/3), math.MaxFloat32, float64(math.SmallestNonzeroFloat32), 1e15, 1e16, 1e20, 1e21, 1e22, 123456789012345678,
			0.1, 0.3, 1e-5, 1e-6, 1e-7, 100000, 1000000, 10000000, 1e21-1e5, 0.000001, 299792458, 6.02214076e23)
		for i := 0; i+3 <= len(ds); i += 3 {
			if !emit(C05Case{Trees: []gen.TreeSpec{{Parents: []int{0, 0, 1}, Names: []gen.B{gen.B("r"), gen.B("a"), gen.B("b")}, Dists: []gen.F{gen.F(ds[i]), gen.F(ds[i+1]), gen.F(ds[i+2]), 1}}}}) {
				return
			}
		}
	}
	// twin names: sibling nodes and consecutive trees whose names differ in one byte
	if !twinFields(func(a, b gen.B) bool {
		ts := gen.TreeSpec{Parents: []int{0, 0, 0}, Names: []gen.B{a, b, a, b}, Dists: []gen.F{0, 1.5}}
		return emit(C05Case{Trees: []gen.TreeSpec{ts, {Names: []gen.B{b}}, {Names: []gen.B{a}}, ts}, Sep: "\n"})
	}) {
		return
	}
	// nodes with 1023..4097 children (whole multiples of 1024 and their neighbours), at the root
	// and one level down
	for _, fan := range []int{255, 256, 1023, 1024, 1025, 2047, 2048, 2049, 3072, 4096, 4097} {
		if !emit(C05Case{Trees: []gen.TreeSpec{{Shape: "broom", N: 1, Fan: fan}, {Shape: "broom", N: 2, Fan: fan, Names: []gen.B{gen.B("x"), gen.B("y z")}, Dists: []gen.F{0, 2.5}}}, Sep: "\n"}) {
			return
		}
	}
	for _, tok := range gen.HostileTokens {
		for pos := 0; pos < 3; pos++ {
			val := append(append(gen.B{}, tok...), 'x')
			if pos == 1 {
				val = append(append(gen.B{'x'}, tok...), 'y')
			}
			if pos == 2 {
				val = append(gen.B{}, tok...) // the token is the whole field
			}
			ts := gen.TreeSpec{Parents: []int{0, 0}, Names: []gen.B{val, gen.B("k"), val}, Dists: []gen.F{0, 1.5}}
			if !emit(C05Case{Trees: []gen.TreeSpec{ts, {Names: []gen.B{val}}, ts}, Sep: "\n"}) {
				return
			}
		}
	}
	// separators between several trees
	for _, sep := range []string{"", "\n", "\r\n", " ", "\t", " \n\t"} {
		ts := []gen.TreeSpec{{Parents: []int{0, 0}, Names: plain}, {}, {Parents: []int{0}, Names: hostile}, {Shape: "chain", N: 3, Dists: dists}}
		if !emit(C05Case{Trees: ts, Sep: sep}) {
			return
		}
	}
	// deep trees
	deep := []int{1000, 10000}
	if thorough {
		deep = append(deep, 100000, 1000000)
	}
	for _, d := range deep {
		for _, sh := range []string{"chain", "caterpillar"} {
			if !emit(C05Case{Trees: []gen.TreeSpec{{Shape: sh, N: d, Names: plain[:3], Dists: dists[:2]}}}) {
				return
			}
		}
	}
}

func propC05() Prop[C05Case] {
	return Prop[C05Case]{ID: "C05", Gen: genC05, Exhaustive: exhaustiveC05, Check: checkC05}
}

func TestC05(t *testing.T) { Run(t, propC05()) }

func FuzzGenC05(f *testing.F) { RunFuzz(f, propC05()) }

func TestRaceC05(t *testing.T) { RunConcurrent(t, propC05(), 4) }
