package props

// C18: every iterator can be stopped early, cleanly, at any point.

import (
	"bytes"
	"fmt"
	"os"
	"path/filepath"
	"sort"
	"strings"
	"testing"

	"github.com/fluhus/biostuff/formats/newick"
	"github.com/fluhus/biostuff/sequtil"
	"github.com/fluhus/biostuff/trie"
	"pgregory.net/rapid"
	"verif/harness/internal/fault"
	"verif/harness/internal/gen"
)

// C18Case selects an iterator and its input.
//
//	Iter = "<format>" | "<format>-file" (fasta fastq sam samh bed newick): Text
//	Iter = "preorder" | "postorder": Tree
//	Iter = "foreach": Words (added to a trie)
//	Iter = "canonical": Seq, K
type C18Case struct {
	Iter  string       `json:"iter"`
	Text  StreamText   `json:"text,omitempty"`
	Tree  gen.TreeSpec `json:"tree,omitempty"`
	Words []gen.B      `json:"words,omitempty"`
	Seq   gen.B        `json:"seq,omitempty"`
	K     int          `json:"k,omitempty"`
	// Fault > 0 (Reader iterators only): the stream fails with a non-EOF error after
	// (Fault-1) % (len+1) bytes, once, then reports EOF; FaultWithData delivers the error together
	// with the last bytes.
	Fault         int  `json:"fault,omitempty"`
	FaultWithData bool `json:"fault_with_data,omitempty"`
	// LineReads (Reader iterators only): the stream delivers exactly one line per Read, so that
	// every Read ends at a line - and so also at a record - boundary, as a pipe fed by a
	// line-buffered producer does.
	LineReads bool `json:"line_reads,omitempty"`
}

var c18Iters = []string{"fasta", "fastq", "sam", "samh", "bed", "newick", "fasta-file", "fastq-file", "sam-file", "samh-file", "bed-file", "newick-file",
	"preorder", "postorder", "foreach", "canonical"}

func genC18(t *rapid.T, thorough bool) C18Case {
	c := C18Case{Iter: rapid.SampledFrom(c18Iters).Draw(t, "iter")}
	switch c.Iter {
	case "preorder", "postorder":
		c.Tree = genTreeShape(t, 40)
	case "foreach":
		n := rapid.IntRange(0, 12).Draw(t, "nwords")
		for i := 0; i < n; i++ {
			c.Words = append(c.Words, gen.B(rapid.SliceOfN(rapid.SampledFrom([]byte("abc\x00\xff\x80")), 1, 5).Draw(t, "word")))
		}
		if rapid.IntRange(0, 5).Draw(t, "longWord") == 3 {
			ln := rapid.SampledFrom([]int{16, 17, 32, 33, 64, 65, 130}).Draw(t, "longLen")
			long := bytes.Repeat([]byte("ab"), ln/2+1)[:ln]
			c.Words = append(c.Words, gen.B(long), append(gen.B(bytes.Clone(long[:ln-1])), 'z'), append(gen.B(bytes.Clone(long[:ln/2])), 'y'))
		}
	case "canonical":
		c.Seq = gen.B(rapid.SliceOfN(rapid.SampledFrom([]byte("ACGTacgtN")), 0, 40).Draw(t, "seq"))
		c.K = rapid.IntRange(1, 6).Draw(t, "k")
		if rapid.IntRange(0, 40).Draw(t, "longSeq") == 20 {
			ln := rapid.SampledFrom([]int{5000, 20000, 40000, 70000}).Draw(t, "seqLen")
			c.Seq = gen.B(bytes.Repeat(c.Seq, ln/max(len(c.Seq), 1)+1))
			if len(c.Seq) == 0 {
				c.Seq = gen.B(bytes.Repeat([]byte("ACGTN"), ln/5))
			}
		}
	default:
		format := c.Iter
		if len(format) > 5 && format[len(format)-5:] == "-file" {
			format = format[:len(format)-5]
		}
		if rapid.IntRange(0, 2).Draw(t, "malformed") == 0 {
			// well-formed records followed / interrupted by damage, so that error items occur
			lines := genWellFormedLines(t, format, rapid.IntRange(1, 5).Draw(t, "nrecs"))
			var buf bytes.Buffer
			for _, l := range lines {
				buf.Write(l)
				buf.WriteByte('\n')
			}
			text := buf.Bytes()
			pos := rapid.IntRange(0, len(text)).Draw(t, "pos")
			tok := rapid.SampledFrom(dictionary).Draw(t, "tok")
			text = append(text[:pos:pos], append([]byte(tok), text[pos:]...)...)
			if rapid.Bool().Draw(t, "truncate") {
				text = text[:rapid.IntRange(0, len(text)).Draw(t, "cut")]
			}
			c.Text = StreamText{Raw: text}
		} else {
			c.Text = StreamText{Lines: genWellFormedLines(t, format, rapid.IntRange(1, 8).Draw(t, "nrecs"))}
		}
		if format == c.Iter && rapid.IntRange(0, 3).Draw(t, "lineReads") == 2 {
			c.LineReads = true
			return c
		}
		if format == c.Iter && rapid.IntRange(0, 3).Draw(t, "faulty") == 1 {
			c.Fault = rapid.IntRange(1, 2000).Draw(t, "fault")
			c.FaultWithData = rapid.Bool().Draw(t, "faultWithData")
		}
	}
	return c
}

// iterRunner returns a function that runs the iterator with a callback; items are canonical strings.
func iterRunner(c C18Case) (run func(cb func(Item) bool), unordered bool, errorIsLast bool, ok bool) {
	switch c.Iter {
	case "preorder", "postorder":
		root, nodes := buildTree(c.Tree)
		index := make(map[*newick.Node]int, len(nodes))
		for i, n := range nodes {
			index[n] = i
		}
		// one iterator value, ranged over again for every (interrupted) run
		it := root.PostOrder()
		if c.Iter == "preorder" {
			it = root.PreOrder()
		}
		return func(cb func(Item) bool) {
			it(func(n *newick.Node) bool { return cb(Item{Rec: fmt.Sprintf("node %d", index[n])}) })
		}, false, false, true
	case "foreach":
		tr := trie.New()
		for _, w := range c.Words {
			if len(w) > 0 {
				tr.Add(w)
			}
		}
		// a trie with a history: every third word is deleted and added again (the set is the same)
		for i, w := range c.Words {
			if len(w) > 0 && i%3 == 0 {
				tr.Delete(w)
				tr.Add(w)
			}
		}
		// (the very first traversal of this trie is one that is abandoned after its first item)
		tr.ForEach(func([]byte) bool { return false })
		return func(cb func(Item) bool) {
			tr.ForEach(func(b []byte) bool { return cb(Item{Rec: string(b)}) })
		}, true, false, true
	case "canonical":
		for _, b := range c.Seq {
			if bytes.IndexByte([]byte(rcLetters), b) < 0 {
				return nil, false, false, false
			}
		}
		if c.K < 1 {
			return nil, false, false, false
		}
		seq := bytes.Clone(c.Seq)
		it := sequtil.CanonicalSubsequences(seq, c.K)
		return func(cb func(Item) bool) {
			it(func(b []byte) bool { return cb(Item{Rec: string(b)}) })
		}, false, false, true
	}
	format, file := c.Iter, false
	if len(format) > 5 && format[len(format)-5:] == "-file" {
		format, file = format[:len(format)-5], true
	}
	codec := codecs[format]
	if codec == nil {
		return nil, false, false, false
	}
	text := c.Text.Render(false)
	if file {
		if c.Text.Raw == nil && len(c.Text.Lines) == 0 {
			// no input at all: the path that cannot be opened
			missing := filepath.Join(scratchDir(), "no-such-dir", "missing."+format)
			return codec.FileSeq(missing), false, codec.ErrorIsLast, true
		}
		if string(c.Text.Raw) == "\x00directory" || string(c.Text.Raw) == "\x00cutgz" {
			// a path that opens but cannot be read: a directory, or a *.gz cut right after its header
			name := fmt.Sprintf("unreadable%d x.%s", nextTmp(), format)
			path := filepath.Join(scratchDir(), name)
			if string(c.Text.Raw) == "\x00directory" {
				os.Mkdir(path, 0o755)
			} else {
				path += ".gz"
				os.WriteFile(path, []byte{0x1f, 0x8b, 8, 0, 0, 0, 0, 0, 0, 0xff}, 0o644)
			}
			trackTemp(path)
			return codec.FileSeq(path), false, codec.ErrorIsLast, true
		}
		path := writeTemp(text, "."+format)
		return codec.FileSeq(path), false, codec.ErrorIsLast, true
	}
	if c.Fault > 0 {
		k := (c.Fault - 1) % (len(text) + 1)
		return func(cb func(Item) bool) {
			codec.Reader(&fault.FailAfter{Data: text, K: k, WithData: c.FaultWithData}, cb)
		}, false, codec.ErrorIsLast, true
	}
	if c.LineReads {
		var sizes []int
		start := 0
		for i, b := range text {
			if b == '\n' {
				sizes = append(sizes, i+1-start)
				start = i + 1
			}
		}
		if start < len(text) {
			sizes = append(sizes, len(text)-start)
		}
		// every third such stream also makes no progress for a while in the middle: 120 reads
		// in a row return (0, nil) - which buffered readers report as an error - before the
		// data carries on
		stall := 0
		if len(text)%3 == 0 && len(text) > 0 {
			stall = 120
		}
		return func(cb func(Item) bool) {
			codec.Reader(&fault.Chunked{Data: text, Sizes: sizes, StallAt: len(text) / 2, Stall: stall}, cb)
		}, false, codec.ErrorIsLast, true
	}
	return func(cb func(Item) bool) { codec.Reader(bytes.NewReader(text), cb) }, false, codec.ErrorIsLast, true
}

func checkC18(c C18Case, o *Obs) error {
	defer cleanupTemp()
	run, unordered, errorIsLast, ok := iterRunner(c)
	if !ok {
		return nil
	}
	o.Class("iter:" + c.Iter)
	full, over, p := collect(run, 100000)
	if p != nil {
		return fmt.Errorf("%s: uninterrupted run panicked: %v", c.Iter, p)
	}
	if over {
		return fmt.Errorf("%s: uninterrupted run yields more than 100000 items", c.Iter)
	}
	N := len(full)
	o.NT = N >= 2
	hasErr := false
	for i, it := range full {
		if it.Err != nil {
			hasErr = true
			if errorIsLast && i != N-1 {
				return fmt.Errorf("%s: error item %d (%v) is not the last of %d items: %s", c.Iter, i, it.Err, N, describeItems(full))
			}
		}
	}
	// The source object of an abandoned iteration is the caller's: re-pointed at other data
	// (bytes.Reader.Reset, a refilled bytes.Buffer) and handed to Reader again, it is read like any
	// other stream - nothing of the abandoned input comes back.
	if codec := codecs[c.Iter]; codec != nil && c.Fault == 0 && !c.LineReads && N >= 2 && len(smallInputs[c.Iter]) > 0 {
		o.Class("source object re-pointed after an abandoned pass")
		text := c.Text.Render(false)
		other := []byte(smallInputs[c.Iter][len(text)%len(smallInputs[c.Iter])])
		want, wover, wp := collect(func(cb func(Item) bool) { codec.Reader(bytes.NewReader(other), cb) }, len(other)+16)
		if wp == nil && !wover {
			br := bytes.NewReader(text)
			collect(func(cb func(Item) bool) { codec.Reader(br, cb) }, 1)
			br.Reset(other)
			got, gover, gp := collect(func(cb func(Item) bool) { codec.Reader(br, cb) }, len(other)+16)
			if gp != nil || gover || !sameItems(got, want) {
				return fmt.Errorf("%s: a *bytes.Reader whose first iteration was abandoned after one item, then Reset to other data and handed to Reader again, yields %s (panic %v), want %s (first input %s, second input %s)",
					c.Iter, describeItems(got), gp, describeItems(want), gen.Abbrev(text), gen.Abbrev(other))
			}
			var bb bytes.Buffer
			bb.Write(text)
			collect(func(cb func(Item) bool) { codec.Reader(&bb, cb) }, 1)
			bb.Reset()
			bb.Write(other)
			got, gover, gp = collect(func(cb func(Item) bool) { codec.Reader(&bb, cb) }, len(other)+16)
			if gp != nil || gover || !sameItems(got, want) {
				return fmt.Errorf("%s: a *bytes.Buffer whose first iteration was abandoned after one item, then refilled with other data and handed to Reader again, yields %s (panic %v), want %s (first input %s, second input %s)",
					c.Iter, describeItems(got), gp, describeItems(want), gen.Abbrev(text), gen.Abbrev(other))
			}
		}
	}
	o.ClassIf(hasErr, "has error item")
	o.ClassIf(c.Fault > 0, "failing stream")
	o.ClassIf(N == 0, "no items")
	fullSet := map[string]int{}
	for _, it := range full {
		fullSet[it.key()]++
		if unordered && fullSet[it.key()] > 1 {
			return fmt.Errorf("%s: the uninterrupted run reports %q more than once: %s", c.Iter, it.key(), describeItems(full))
		}
	}
	stops := 0
	// every stop position for N <= 400; for longer runs the positions around the ends, around
	// powers of two (block sizes) and a regular sample
	stopSet := map[int]bool{}
	if N <= 400 {
		for s := 1; s <= N; s++ {
			stopSet[s] = true
		}
	} else {
		for _, s := range []int{1, 2, 3, N / 2, N - 2, N - 1, N} {
			stopSet[s] = true
		}
		for p := 256; p < N; p *= 2 {
			for d := -1; d <= 1; d++ {
				stopSet[p+d] = true
			}
		}
		for s := 97; s < N; s += N / 23 {
			stopSet[s] = true
		}
		o.Class("long run, sampled stop positions")
	}
	for s := 1; s <= N; s++ {
		if !stopSet[s] {
			continue
		}
		stops++
		var seen []Item
		calls, late := 0, 0
		p := catch(func() {
			run(func(it Item) bool {
				calls++
				if calls > s {
					late++
					return false
				}
				seen = append(seen, it)
				return calls < s
			})
		})
		if p != nil {
			return fmt.Errorf("%s: stopping after %d of %d items panicked: %v", c.Iter, s, N, p)
		}
		if late > 0 {
			return fmt.Errorf("%s: after the consumer stopped at item %d of %d the iterator made %d further callback(s)", c.Iter, s, N, late)
		}
		if len(seen) != s {
			return fmt.Errorf("%s: stopping at item %d of %d: saw only %d items", c.Iter, s, N, len(seen))
		}
		if unordered {
			got := map[string]int{}
			for _, it := range seen {
				got[it.key()]++
				if got[it.key()] > fullSet[it.key()] {
					return fmt.Errorf("%s: stopping at item %d: saw %q, which is not a distinct member of the full result %s", c.Iter, s, it.key(), describeItems(full))
				}
			}
		} else {
			for i := range seen {
				if seen[i].key() != full[i].key() {
					return fmt.Errorf("%s: stopping at item %d: item %d is %s, but the uninterrupted run has %s there", c.Iter, s, i, seen[i], full[i])
				}
			}
		}
		// the items the consumer holds are still what they were when they were yielded
		for i, it := range seen {
			if it.Err == nil && it.canon != nil {
				if now := it.canon(); now != it.Rec {
					return fmt.Errorf("%s: stopping at item %d of %d: item %d was %s when it was yielded and is %s after the stop", c.Iter, s, N, i, it, Item{Rec: now})
				}
			}
		}
		o.ClassIf(seen[s-1].Err != nil, "stop on error item")
		o.ClassIf(s == 1, "stop at first")
		o.ClassIf(s == N, "stop at last")
		// the same with a real range-over-func loop and break (the runtime panics if the
		// iterator continues after the loop body has exited)
		cnt := 0
		if p := catch(func() {
			for range seq(run) {
				cnt++
				if cnt == s {
					break
				}
			}
		}); p != nil {
			return fmt.Errorf("%s: 'for range' with break at item %d of %d panicked: %v", c.Iter, s, N, p)
		}
	}
	// An iteration started in the loop body of another iteration of the same kind and stopped
	// there after one item: the outer iteration still delivers the items of an uninterrupted run.
	if N >= 2 {
		o.Class("stopped inside another iteration")
		for _, at := range []int{0, N / 2} {
			var outer []Item
			innerSeen := 0
			if p := catch(func() {
				run(func(it Item) bool {
					if len(outer) == at {
						run(func(Item) bool { innerSeen++; return false })
					}
					outer = append(outer, it)
					return len(outer) <= N+1
				})
			}); p != nil {
				return fmt.Errorf("%s: an iteration in whose loop body (at item %d) another one was started and stopped after one item panicked: %v", c.Iter, at, p)
			}
			if innerSeen != 1 {
				return fmt.Errorf("%s: the inner iteration, stopped at its first item, made %d callbacks", c.Iter, innerSeen)
			}
			bad := len(outer) != N
			got := map[string]int{}
			for i := 0; i < len(outer) && !bad; i++ {
				if unordered {
					got[outer[i].key()]++
					bad = got[outer[i].key()] > fullSet[outer[i].key()]
				} else {
					bad = outer[i].key() != full[i].key()
				}
			}
			if bad {
				return fmt.Errorf("%s: an iteration in whose loop body (at item %d) another one was started and stopped after one item yields %s, an uninterrupted run yields %s", c.Iter, at, describeItems(outer), describeItems(full))
			}
		}
	}
	o.Count("stopped_runs", 2*stops)
	return nil
}

// seq adapts a callback-style runner to a range-over-func iterator.
func seq(run func(cb func(Item) bool)) func(yield func(Item) bool) {
	return func(yield func(Item) bool) { run(yield) }
}

func exhaustiveC18(thorough bool, emit func(C18Case) bool) {
	for _, f := range codecNames {
		ins := append(append([]string{}, smallInputs[f]...), tinyInputs[f]...)
		for _, in := range ins {
			if !emit(C18Case{Iter: f, Text: StreamText{Raw: gen.B(in)}}) || !emit(C18Case{Iter: f + "-file", Text: StreamText{Raw: gen.B(in)}}) ||
				!emit(C18Case{Iter: f, Text: StreamText{Raw: gen.B(in)}, LineReads: true}) {
				return
			}
		}
	}
	// a few hundred small numbered records, one line per Read
	for _, f := range codecNames {
		var raw bytes.Buffer
		for i := 0; i < 300; i++ {
			switch f {
			case "fasta":
				fmt.Fprintf(&raw, ">r%d\nACGT%d\n", i, i)
			case "fastq":
				fmt.Fprintf(&raw, "@r%d\nACGTA\n+\nII%03d\n", i, i)
			case "sam", "samh":
				fmt.Fprintf(&raw, "r%d\t0\tr\t%d\t2\tM\t=\t4\t5\tA\tI\n", i, i+1)
			case "bed":
				fmt.Fprintf(&raw, "c\t%d\t%d\tn%d\n", i, i+5, i)
			case "newick":
				fmt.Fprintf(&raw, "(a%d,b)c;\n", i)
			}
		}
		if !emit(C18Case{Iter: f, Text: StreamText{Raw: raw.Bytes()}, LineReads: true}) {
			return
		}
	}
	// more than a thousand good records, a malformed one, five more good ones: the error item
	// is the last item however many records precede it
	for _, f := range []string{"fastq", "bed", "newick", "fasta"} {
		for _, n := range []int{1023, 1025, 2000, 3001} {
			var raw bytes.Buffer
			rec := func(i int) {
				switch f {
				case "fasta":
					fmt.Fprintf(&raw, ">r%d\nACGT%d\n", i, i)
				case "fastq":
					fmt.Fprintf(&raw, "@r%d\nACGTA\n+\nII%03d\n", i%1000, i%1000)
				case "bed":
					fmt.Fprintf(&raw, "c\t%d\t%d\tn%d\n", i, i+5, i)
				case "newick":
					fmt.Fprintf(&raw, "(a%d,b)c;\n", i)
				}
			}
			for i := 0; i < n; i++ {
				rec(i)
			}
			switch f {
			case "fastq":
				raw.WriteString("r-without-at\nACGTA\n+\nIIIII\n")
			case "bed":
				raw.WriteString("c\t1\n")
			case "newick":
				raw.WriteString("(a,b));\n")
			case "fasta":
				raw.WriteString("\n") // (a FASTA text has no malformed records; the blank line is harmless)
			}
			for i := 0; i < 5; i++ {
				rec(n + i)
			}
			if !emit(C18Case{Iter: f, Text: StreamText{Raw: raw.Bytes()}}) || (n == 1025 && !emit(C18Case{Iter: f + "-file", Text: StreamText{Raw: raw.Bytes()}})) {
				return
			}
		}
	}
	// inputs as real tools write them, and a record with a line far longer than any line buffer
	// (1.2 MiB) between two ordinary records
	long := strings.Repeat("ACGTTGCAAC", 120000)
	longInputs := map[string]string{
		"fasta":  ">a\nAC\n>long\n" + long + "\n>b\nGT\n",
		"fastq":  "@a\nAC\n+\nII\n@long\n" + long + "\n+\n" + strings.Repeat("I", len(long)) + "\n@b\nG\n+\nJ\n",
		"sam":    "q1\t0\tr\t1\t2\tM\t=\t4\t5\tA\tI\nq2\t0\tr\t1\t2\tM\t=\t4\t5\t" + long + "\t" + strings.Repeat("I", len(long)) + "\nq3\t0\tr\t1\t2\tM\t=\t4\t5\tA\tI\n",
		"samh":   "@CO\t" + long + "\nq1\t0\tr\t1\t2\tM\t=\t4\t5\tA\tI\n@CO\tx\n",
		"bed":    "c\t1\t2\tn\nc\t1\t2\t" + long + "\nd\t3\t4\tm\n",
		"newick": "(a,b)c;\n('" + long + "':1,b)d;\n(e)f;\n",
	}
	for _, f := range codecNames {
		for _, in := range append([]string{longInputs[f]}, realInputs[f]...) {
			if !emit(C18Case{Iter: f, Text: StreamText{Raw: gen.B(in)}}) || !emit(C18Case{Iter: f + "-file", Text: StreamText{Raw: gen.B(in)}}) {
				return
			}
		}
	}
	faultInputs := map[string]string{
		"fasta": ">a\nACGT\nAC\n>b\nGG\n", "fastq": "@a\nAC\n+\nII\n@b\nG\n+\nJ\n", "sam": "@h\nq\t0\tr\t1\t2\tM\t=\t4\t5\tA\tI\nx\n",
		"samh": "@h\nq\t0\tr\t1\t2\tM\t=\t4\t5\tA\tI\n", "bed": "c\t1\t2\n#k\nd\t3\t4\n", "newick": "(a,b)c;\n(d)e;",
	}
	for _, f := range codecNames {
		in := faultInputs[f]
		for k := 0; k <= len(in); k++ {
			for _, wd := range []bool{false, true} {
				if !emit(C18Case{Iter: f, Text: StreamText{Raw: gen.B(in)}, Fault: k + 1, FaultWithData: wd}) {
					return
				}
			}
		}
	}
	for _, f := range codecNames {
		if !emit(C18Case{Iter: f + "-file"}) { // no text: File on a path that cannot be opened
			return
		}
		// File on a path that opens but cannot be read
		if !emit(C18Case{Iter: f + "-file", Text: StreamText{Raw: gen.B("\x00directory")}}) || !emit(C18Case{Iter: f + "-file", Text: StreamText{Raw: gen.B("\x00cutgz")}}) {
			return
		}
	}
	maxN := 6
	if thorough {
		maxN = 8
	}
	for n := 1; n <= maxN; n++ {
		if !gen.AllShapes(n, func(p []int) bool {
			return emit(C18Case{Iter: "preorder", Tree: gen.TreeSpec{Parents: p}}) && emit(C18Case{Iter: "postorder", Tree: gen.TreeSpec{Parents: p}})
		}) {
			return
		}
	}
	// tries with binary keys and with keys longer than any fixed-size stack
	for _, ws := range [][]string{{"\xff"}, {"a\xff", "a\x00", "ab"}, {"\x00", "\xff", "\xff\xff", "\xfe"}, {"\xffa", "\xffb", "\x00\xff"}} {
		var words []gen.B
		for _, w := range ws {
			words = append(words, gen.B(w))
		}
		if !emit(C18Case{Iter: "foreach", Words: words}) {
			return
		}
	}
	for _, ln := range []int{15, 16, 17, 31, 32, 33, 64, 65, 130, 300} {
		long := bytes.Repeat([]byte("ab"), ln/2+1)[:ln]
		words := []gen.B{gen.B(long), append(gen.B(bytes.Clone(long[:ln-1])), 'z'), append(gen.B(bytes.Clone(long[:ln/2])), 'y'), gen.B("b"), append(gen.B(bytes.Clone(long)), 'q')}
		if !emit(C18Case{Iter: "foreach", Words: words}) {
			return
		}
	}
	// tries over all subsets of a few words
	words := []string{"a", "ab", "abc", "b", "ba", "c", "abd"}
	for mask := 0; mask < 1<<len(words); mask++ {
		var ws []gen.B
		for i, w := range words {
			if mask&(1<<i) != 0 {
				ws = append(ws, gen.B(w))
			}
		}
		if !emit(C18Case{Iter: "foreach", Words: ws}) {
			return
		}
	}
	// long runs (more items than any internal block size)
	for _, ln := range []int{1000, 16384 + 5, 40000, 70000} {
		if !emit(C18Case{Iter: "canonical", Seq: gen.B(bytes.Repeat([]byte("ACGTNacgt"), ln/9+1)[:ln]), K: 3}) {
			return
		}
	}
	if !emit(C18Case{Iter: "preorder", Tree: gen.TreeSpec{Shape: "broom", N: 3, Fan: 70000}}) || !emit(C18Case{Iter: "postorder", Tree: gen.TreeSpec{Shape: "caterpillar", N: 20000}}) {
		return
	}
	seqs := allSeqs([]byte("ACN"), 4)
	sort.Slice(seqs, func(i, j int) bool { return len(seqs[i]) < len(seqs[j]) })
	for _, s := range seqs {
		for k := 1; k <= 3; k++ {
			if !emit(C18Case{Iter: "canonical", Seq: s, K: k}) {
				return
			}
		}
	}
}

func propC18() Prop[C18Case] {
	return Prop[C18Case]{ID: "C18", Gen: genC18, Exhaustive: exhaustiveC18, Check: checkC18}
}

func TestC18(t *testing.T) { Run(t, propC18()) }

func FuzzGenC18(f *testing.F) { RunFuzz(f, propC18()) }

func TestRaceC18(t *testing.T) { RunConcurrent(t, propC18(), 4) }
