#!/usr/bin/env python3
"""Regenerate MANIFEST.json from checks.json so that the two cannot drift apart."""
import json
cfg = json.load(open('/verif/checks.json'))
props = [json.loads(l) for l in open('/verif/properties.jsonl')]
claimed = sorted(cfg['properties'])
checks = []
for pid in claimed:
    c = cfg['properties'][pid]
    checks.append({
        "property_id": pid,
        "quick_cmd": f"./check {pid} --tier quick",
        "thorough_cmd": f"./check {pid} --tier thorough",
        "evidence_file": f"evidence/{pid}.json",
        "replay_cmd_template": f"./check {pid} --replay {{path}}",
        "engine": "harness",
        "level_claimed": {"category": c.get("level", "exploration"), "text": c["level_text"],
                          "design_ref": f"DESIGN.md section 4, {pid}"},
        "level_note": c["level_note"],
        "technique": c["technique"],
    })
na = [{"property_id": p["id"], "reason": cfg.get("not_applicable", {}).get(p["id"], "check under construction in this session; not claimed yet")}
      for p in props if p["id"] not in claimed]
m = {
    "version": 1,
    "setup_cmd": "cd /verif/harness && GOFLAGS=-mod=mod GOPROXY=off GOSUMDB=off GOTOOLCHAIN=local go test -c -o /dev/null ./props",
    "hooks": {
        "guard": "verif",
        "enable": "no hooks are needed: every listed property is observable through the public API, so the checks build /repo unmodified (the harness module replaces github.com/fluhus/biostuff with the directory /repo, i.e. its current working tree)",
        "baseline_off_cmd": "cd /repo && GOFLAGS=-mod=readonly GOPROXY=off go test -vet=off -count=1 ./...",
        "source_commits": [],
        "add_only": True,
    },
    "engines": [
        {"name": "harness", "path": "harness/", "serves_properties": claimed,
         "kind_free_text": "Go test module: pgregory.net/rapid v1.3.0 generators, small-scope exhaustive enumerators, fault-injecting readers/writers, reference models and native go fuzz targets; one check function with an explicit oracle per property"},
        {"name": "driver", "path": "check", "serves_properties": claimed,
         "kind_free_text": "python3 driver: rebuilds the harness against /repo's working tree, shards stages over processes, merges recorder dumps into evidence/<id>.json, classifies known findings, maps outcomes to exit codes 0/1/2"},
    ],
    "checks": checks,
    "not_applicable": na,
    "notes": cfg.get("notes", ""),
}
json.dump(m, open('/verif/MANIFEST.json', 'w'), indent=1)
print("claimed", len(checks), "not_applicable", len(na))
