#!/usr/bin/env python3
"""Confirm and ingest a sub-agent's seeded change.

  ./ingest_seed.py <ID> <N> [--src /tmp/seed-<ID>/seed/<N>]

Confirms, in fresh scratch copies of /repo (outside /repo and /verif, removed afterwards):
  1. the patch applies, the library builds and its own test suite passes with it;
  2. the demonstration fails with the patch;
  3. the demonstration passes without the patch.
If all three hold the change is kept as /verif/seeded/<ID>-<N>/ (patch.diff, demo_test.go,
meta.json with what was run), and the quick check of the property is run against the patched
copy (then the thorough one if the quick one misses it); the outcome is recorded in meta.json.
"""
import json, os, shutil, subprocess, sys, tempfile, time

ROOT = os.path.dirname(os.path.abspath(__file__))
ENV = dict(os.environ, GOFLAGS="-mod=readonly", GOPROXY="off", GOSUMDB="off", GOTOOLCHAIN="local")


def sh(cmd, cwd, env=ENV, timeout=1800):
    p = subprocess.run(cmd, cwd=cwd, env=env, shell=isinstance(cmd, str), stdout=subprocess.PIPE,
                       stderr=subprocess.STDOUT, text=True, timeout=timeout)
    return p.returncode, p.stdout


def scratch():
    d = tempfile.mkdtemp(prefix="verif-seed-")
    subprocess.run(["rsync", "-a", "--exclude", ".git", "--exclude", "seed", "/repo/", d + "/"], check=True)
    return d


def main():
    pid, n = sys.argv[1], sys.argv[2]
    src = f"/tmp/seed-{pid}/seed/{n}"
    if "--src" in sys.argv:
        src = sys.argv[sys.argv.index("--src") + 1]
    only_check = "--recheck" in sys.argv
    dst = os.path.join(ROOT, "seeded", f"{pid}-{n}")
    if "--name" in sys.argv:
        dst = os.path.join(ROOT, "seeded", sys.argv[sys.argv.index("--name") + 1])
    if only_check:
        src = dst
    patch = os.path.join(src, "patch.diff")
    demo = os.path.join(src, "demo_test.go")
    meta = json.load(open(os.path.join(src, "meta.json")))
    pkg = meta.get("demo_pkg_dir", "").strip("/")
    if pkg.startswith("tmp/"):
        pkg = pkg.split("/", 2)[2]
    pkg = pkg.strip("./")
    log = {"confirmed_at": time.strftime("%Y-%m-%dT%H:%M:%S")}
    demo_name = "zz_seed_demo_test.go"

    # 3. demo passes without the patch
    clean = scratch()
    patched = scratch()
    try:
        shutil.copy(demo, os.path.join(clean, pkg, demo_name))
        rc, out = sh(["go", "test", "-vet=off", "-count=1", "./" + pkg], clean)
        log["demo_without_patch"] = "pass" if rc == 0 else "FAIL"
        if rc != 0:
            print("demo does not pass on the original tree:\n", out[-2000:])
        # 1. patch applies, suite passes
        rc, out = sh(["git", "apply", "--unsafe-paths", "--directory=" + patched, patch], "/")
        if rc != 0:
            rc, out = sh(["patch", "-p1", "-s", "-i", patch], patched)
        log["patch_applies"] = rc == 0
        if rc != 0:
            print("patch does not apply:", out)
        rc, out = sh(["go", "test", "-vet=off", "-count=1", "./..."], patched)
        log["suite_with_patch"] = "pass" if rc == 0 else "FAIL"
        if rc != 0:
            print("suite fails with the patch:\n", out[-2000:])
        # 2. demo fails with the patch
        shutil.copy(demo, os.path.join(patched, pkg, demo_name))
        race = ["-race"] if "-race" in meta.get("demo_cmd", "") else []
        rc, out = sh(["go", "test", "-vet=off", "-count=1"] + race + ["./" + pkg], patched)
        log["demo_with_patch"] = "fail" if rc != 0 else "PASS"
        log["demo_output_tail"] = out[-600:]
        os.remove(os.path.join(patched, pkg, demo_name))
        ok = log["demo_without_patch"] == "pass" and log["patch_applies"] and log["suite_with_patch"] == "pass" and log["demo_with_patch"] == "fail"
        print(json.dumps({k: v for k, v in log.items() if k != "demo_output_tail"}))
        if not ok:
            print("NOT CONFIRMED; nothing kept")
            return 1
        if not only_check:
            os.makedirs(dst, exist_ok=True)
            shutil.copy(patch, os.path.join(dst, "patch.diff"))
            shutil.copy(demo, os.path.join(dst, "demo_test.go"))
        # run our checks against the patched copy
        results = {}
        props = [pid] + [p for p in sys.argv[3:] if p.startswith("C") and len(p) == 3 and p != pid]
        for prop in props:
            for tier in (("quick",) if "--quick-only" in sys.argv else ("quick", "thorough")):
                t0 = time.time()
                e = dict(os.environ, VERIF_REPO=patched)
                p = subprocess.run([os.path.join(ROOT, "check"), prop, "--tier", tier], cwd=ROOT, env=e, stdout=subprocess.PIPE,
                                   stderr=subprocess.PIPE, text=True)
                viol = [l for l in p.stdout.splitlines() if l.startswith("VIOLATION")]
                first = [l.strip() for l in p.stderr.splitlines() if l.strip().startswith("stage=")][:1]
                results[f"{prop}/{tier}"] = {"rc": p.returncode, "violations": len(viol), "wall_s": round(time.time() - t0, 1), "first": first}
                print(prop, tier, "rc", p.returncode, "violations", len(viol), first[:1])
                if p.returncode == 1:
                    break
        meta["what_i_ran"] = log
        meta["check_results"] = results
        meta["detected"] = any(r["rc"] == 1 for r in results.values())
        json.dump(meta, open(os.path.join(dst, "meta.json"), "w"), indent=1)
        return 0
    finally:
        shutil.rmtree(clean, ignore_errors=True)
        shutil.rmtree(patched, ignore_errors=True)


if __name__ == "__main__":
    sys.exit(main())
