#!/usr/bin/env python3
"""Take over behaviour-preserving changes written by sub-agents (DESIGN.md 9.5, "silence" side).

  ./ingest_benign.py <pkg> <outdir> [prefix]   for every <outdir>/<N>/patch.diff: confirm that it applies to /repo's
                                        tree and that the repository's own tests pass with it, then store it as
                                        benign/agent-<pkg>-<N>.patch with the checks of the properties anchored in
                                        that package listed in its header; `./selftest benign agent-<pkg>-<N>`
                                        then requires those checks to stay silent.
"""
import json, os, subprocess, sys, shutil, tempfile

ROOT = os.path.dirname(os.path.abspath(__file__))
PK = {
    "fasta": ["C01", "C06", "C07", "C11", "C18"], "fastq": ["C02", "C06", "C07", "C11", "C18"],
    "sam": ["C03", "C06", "C07", "C11", "C18"], "bed": ["C04", "C06", "C07", "C11", "C18"],
    "newick": ["C05", "C06", "C07", "C11", "C18", "C19"], "align": ["C08", "C09", "C10", "C20"],
    "trie": ["C15", "C18"], "regions": ["C16"], "mash": ["C17"],
    "sequtil": ["C12", "C13", "C14", "C17", "C18"], "smtext": ["C20", "C11"],
}


def main():
    pkg, out = sys.argv[1], sys.argv[2]
    prefix = sys.argv[3] if len(sys.argv) > 3 else "agent"
    for n in sorted(os.listdir(out)):
        p = os.path.join(out, n, "patch.diff")
        if not os.path.isfile(p):
            continue
        meta = {}
        try:
            meta = json.load(open(os.path.join(out, n, "meta.json")))
        except Exception as e:
            print(f"{pkg}-{n}: meta.json unreadable ({e})")
        d = tempfile.mkdtemp(prefix="verif-ben-")
        try:
            subprocess.run(["rsync", "-a", "--exclude", ".git", "/repo/", d + "/"], check=True)
            a = subprocess.run(["patch", "-p1", "-s", "-i", p], cwd=d, stdout=subprocess.PIPE, stderr=subprocess.STDOUT, text=True)
            if a.returncode != 0:
                print(f"{pkg}-{n}: patch does not apply: {a.stdout[:300]}")
                continue
            env = dict(os.environ, GOFLAGS="-mod=readonly", GOPROXY="off", GOSUMDB="off", GOTOOLCHAIN="local")
            t = subprocess.run(["go", "test", "-vet=off", "-count=1", "./..."], cwd=d, env=env, stdout=subprocess.PIPE,
                               stderr=subprocess.STDOUT, text=True)
            if t.returncode != 0:
                print(f"{pkg}-{n}: repository tests fail with it:\n{t.stdout[-800:]}")
                continue
        finally:
            shutil.rmtree(d, ignore_errors=True)
        what = (meta.get("summary") or "").replace("\n", " ")[:300]
        dst = os.path.join(ROOT, "benign", f"{prefix}-{pkg}-{n}.patch")
        with open(dst, "w") as f:
            f.write(f"# {what}\n# checks: {' '.join(PK[pkg])}\n")
            f.write(open(p).read())
        why = os.path.join(ROOT, "benign", f"{prefix}-{pkg}-{n}.json")
        json.dump(meta, open(why, "w"), indent=1)
        print(f"{pkg}-{n}: stored {os.path.relpath(dst, ROOT)} ({what[:100]})")


if __name__ == "__main__":
    main()
